"""hplsim - deterministic simulation with fault injection for hpl-specs (see /verif/DESIGN.md)."""
