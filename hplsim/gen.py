"""Workload generators: typed expression terms, properties, texts, token mutations, valuations.

Terms are plain nested tuples (JSON-friendly once listified) that render to HPL text; the real
parser (or the AST constructors, for shapes the grammar cannot write) turns them into ASTs.
Every random decision goes through a core.Sim.
"""

import re
from fractions import Fraction

###############################################################################
# Fixed message schema used by the expression workloads (C08, C16, C07)
###############################################################################

# Short names first (they dominate the draws), then names as people spell them: underscores,
# digits, a leading underscore, capitals, names that begin with a keyword (`not_ready`, `inside`),
# a name that is also a built-in function (`len`).
BOOL_FIELDS = ('p', 'q', 'ok', 'not_ready', 'is_on')
NUM_FIELDS = ('x', 'y', 'k', 'linear_x', 'v2', '_w', 'len', 'inside')
STR_FIELDS = ('txt', 'frame_id')
NUMARR_FIELDS = ('xs', 'ranges')
BOOLARR_FIELDS = ('bs',)
MSG_FIELDS = {'m': {'x': 'num', 'ok': 'bool'}}
ALIASES = ('A', 'Msg_1')
CASE_IDS = ('Safe_Stop', 'safe_stop', 'SAFE_STOP', 'stopOnBumper', 'stoponbumper', 'P1', 'p1')
WORDY_NAMES = ('min', 'max', 'len', 'log', 'sum', 'abs', 'int', 'sqrt')

NUM_LITS = ('0', '1', '2', '3', '0.5', '1.5', '4', '10', '1.0', '2.0', '255', '360', '1000', '0.1', '3.14159', '1e3', '2147483648',
            '0.2', '0.7', '1.1', '0.9', '.5', '5.', '2.e3')
STR_LITS = ('""', '"a"', '"ab"')

# String contents as people write them: escapes of every kind (lark's ESCAPED_STRING admits a
# backslash before ANY character), text that looks like the syntax of an output format or of HPL
# itself, separators, non-ASCII. Used wherever a workload needs a string with "interesting" content.
STRING_CONTENTS = (
    'base_link', 'don\\\'t move', 'C:\\docs\\hpl\\arm.txt', '\\alpha < 1', 'matches \\d+ on /diag', '50\\%', 'caf\\u00e9',
    'tab\\there', 'quote \\" inside', 'back\\\\slash', 'reading: NaN', 'limit:Infinity', '{\\"temp\\": -Infinity}',
    'value: null', 'ok: true', 'a:b', 'x, y; z', '{ x > 1 }', '@A.x = 1', '# id: p1', 'globally: no a', 'NaN', 'Infinity', 'INF', 'within 10 ms',
    'caf\u00e9 \u2192 max', '\u65e5\u672c', '100%', ' leading and trailing ', '', 'z' * 120, '<b>&amp;</b>', "it's", '\\/', 'line\\nbreak',
)


def string_literal(sim):
    """A quoted string literal with content drawn from STRING_CONTENTS."""
    return '"%s"' % sim.pick('strcontent', STRING_CONTENTS)

ARITH = ('+', '-', '*', '/', '**')
RELOPS = ('<', '<=', '>', '>=')
EQOPS = ('=', '!=')
BOOLOPS = ('and', 'or', 'implies', 'iff')

NUM_FUNS_1 = ('abs', 'int', 'float', 'sqrt', 'ceil', 'floor', 'sin', 'cos', 'tan', 'asin',
              'acos', 'atan', 'deg', 'rad')
AGG_FUNS = ('len', 'sum', 'prod', 'max', 'min', 'gcd')
VARIADIC_FUNS = ('max', 'min', 'gcd')
BINARY_FUNS = ('log', 'atan2')
BUILTIN_FUNCTIONS = ('abs', 'bool', 'int', 'float', 'str', 'len', 'sum', 'prod', 'sqrt', 'ceil',
                     'floor', 'log', 'sin', 'cos', 'tan', 'asin', 'acos', 'atan', 'atan2', 'deg',
                     'rad', 'max', 'min', 'gcd', 'roll', 'pitch', 'yaw')

###############################################################################
# Rendering
###############################################################################


def render(t):
    """Render a term to HPL text (fully parenthesised, always parseable if the term is typed)."""
    k = t[0]
    if k == 'lit':
        return t[2]
    if k == 'neglit':  # a negative number literal, written -N
        return '(-%s)' % t[1]
    if k == 'const':
        return t[1]
    if k == 'field':
        return t[1]
    if k == 'var':
        return '@' + t[1]
    if k == 'dot':
        return '%s.%s' % (render(t[1]), t[2])
    if k == 'idx':
        return '%s[%s]' % (render(t[1]), render_arith(t[2]))
    if k == 'un':
        if t[1] == 'not':
            return '(not %s)' % render(t[2])
        return '(-%s)' % render(t[2])
    if k == 'bin':
        return '(%s %s %s)' % (render(t[2]), t[1], render(t[3]))
    if k == 'call':
        return '%s(%s)' % (t[1], render_arith(t[2]))
    if k == 'set':
        return '{%s}' % ', '.join(render_arith(e) for e in t[1])
    if k == 'range':
        return '%s%s to %s%s' % ('![' if t[3] else '[', render_arith(t[1]), render_arith(t[2]),
                                 ']!' if t[4] else ']')
    if k == 'quant':
        return '(%s %s in %s: %s)' % (t[1], t[2], render(t[3]), render(t[4]))
    if k == 'raw':
        return t[1]
    raise ValueError('cannot render %r' % (t,))


def render_arith(t):
    # positions that take `expr` (no relational/boolean operator at top level): our binary
    # operators are always parenthesised, so the same rendering works
    return render(t)


def contains(t, kind):
    if not isinstance(t, tuple):
        return False
    if t and t[0] == kind:
        return True
    return any(contains(c, kind) for c in t[1:] if isinstance(c, tuple)) or any(
        contains(e, kind) for c in t[1:] if isinstance(c, list) for e in c)


def term_size(t):
    n = 1
    for c in t[1:]:
        if isinstance(c, tuple):
            n += term_size(c)
        elif isinstance(c, list):
            n += sum(term_size(e) for e in c)
    return n


def listify(t):
    if isinstance(t, (tuple, list)):
        return [listify(c) for c in t]
    return t


def tuplify(t):
    """Inverse of listify: node = tuple whose first element is a str tag; element lists stay lists."""
    if isinstance(t, list):
        if t and isinstance(t[0], str) and t[0] in _TAGS:
            return tuple(tuplify(c) for c in t)
        return [tuplify(c) for c in t]
    return t


_TAGS = {'lit', 'neglit', 'const', 'field', 'var', 'dot', 'idx', 'un', 'bin', 'call', 'callv',
         'set', 'range', 'quant', 'raw'}


###############################################################################
# Typed expression generator
###############################################################################


class ExprGen:
    """Type-directed generator over the fixed schema.

    type tags: 'bool', 'num', 'str'; compound generators return (term, elemtype).
    """

    def __init__(self, sim, max_depth=5, allow_alias=True, allow_quant=True, allow_api=False,
                 trig_bias=0.35, allow_consts=False):
        self.sim = sim
        self.max_depth = max_depth
        self.allow_alias = allow_alias
        self.allow_quant = allow_quant
        self.allow_api = allow_api
        self.trig_bias = trig_bias
        self.allow_consts = allow_consts
        self.qvars = []  # stack of (name, type)
        self.unique_vars = True
        self.free_vars = False
        self.force_quantifier = None
        self.pool = {'bool': [], 'num': []}  # previously generated subterms (for duplication)
        self.vcount = 0
        # names a user would pick that happen to be words of the language (built-in functions)
        self.wordy = sim.coin('wordyvars', 0.08)

    # -- leaves ---------------------------------------------------------------

    def num_lit(self):
        s = self.sim
        if s.coin('neglit', 0.2):
            return ('neglit', s.pick('numlit', NUM_LITS[1:]))
        return ('lit', 'num', s.pick('numlit', NUM_LITS))

    def base_msg(self):
        if self.allow_alias and self.sim.coin('alias', 0.25):
            return ('var', self.sim.pick('aliasname', ALIASES))
        return None

    def ref(self, names):
        # the first three names of each list are drawn most often
        name = self.sim.pick('field', names[:3]) if len(names) > 3 and self.sim.coin('shortname', 0.6) else self.sim.pick('field', names)
        base = self.base_msg()
        if base is None:
            return ('field', name)
        return ('dot', base, name)

    def num_leaf(self):
        s = self.sim
        opts = [(3, 'field'), (2, 'lit'), (1, 'nested'), (1, 'idx'), (0.7, 'path')]
        nv = [v for v, ty in self.qvars if ty == 'num']
        if nv:
            opts.append((4, 'qvar'))
        if self.allow_consts:
            opts.append((0.5, 'const'))
        if self.free_vars:
            opts.append((0.8, 'freevar'))
        c = s.weighted('numleaf', opts)
        if c == 'freevar':
            return ('var', 'v%d' % (1 + s.choose('freev', 3)))
        if c == 'field':
            return self.ref(NUM_FIELDS)
        if c == 'lit':
            return self.num_lit()
        if c == 'nested':
            base = self.base_msg()
            m = ('field', 'm') if base is None else ('dot', base, 'm')
            return ('dot', m, 'x')
        if c == 'idx':
            ik = s.choose('idxkind', 5)
            if ik <= 2:
                ix = ('lit', 'num', s.pick('idxlit', ('0', '1', '2', '2', '5', '6')))
            elif ik == 3:
                ix = ('bin', '-', ('call', 'len', self.ref(NUMARR_FIELDS)), ('lit', 'num', '1'))
            else:
                ix = ('call', s.pick('idxfun', ('abs', 'int', 'floor')), self.ref(NUM_FIELDS))
            return ('idx', self.ref(NUMARR_FIELDS), ix)
        if c == 'path':
            # an access path with several steps: grid[i][j], pts[i].ys[j], pts[i].x (arrays of arrays
            # and arrays of messages, as in trajectory.points[k].positions[j]); an index may be a
            # constant expression
            def index():
                return s.pick('pathidx', (('lit', 'num', '0'), ('lit', 'num', '1'), ('lit', 'num', '2'),
                                          ('bin', '+', ('lit', 'num', '1'), ('lit', 'num', '1')),
                                          ('bin', '-', ('lit', 'num', '2'), ('lit', 'num', '1')),
                                          ('bin', '+', ('lit', 'num', '0'), ('lit', 'num', '1')),
                                          ('bin', '*', ('lit', 'num', '2'), ('lit', 'num', '1')),
                                          ('bin', '-', ('lit', 'num', '1'), ('lit', 'num', '1'))))
            shape = s.choose('pathshape', 3)
            if shape == 0:
                return ('idx', ('idx', self.ref(('grid',)), index()), index())
            if shape == 1:
                return ('idx', ('dot', ('idx', self.ref(('pts',)), index()), 'ys'), index())
            return ('dot', ('idx', self.ref(('pts',)), index()), 'x')
        if c == 'const':
            return ('const', s.pick('const', ('PI', 'E')))
        return ('var', s.pick('qvar', nv))

    def bool_leaf(self):
        s = self.sim
        opts = [(4, 'field'), (0.6, 'lit'), (1, 'nested'), (1, 'idx')]
        bv = [v for v, ty in self.qvars if ty == 'bool']
        if bv:
            opts.append((4, 'qvar'))
        c = s.weighted('boolleaf', opts)
        if c == 'field':
            return self.ref(BOOL_FIELDS)
        if c == 'lit':
            return ('lit', 'bool', s.pick('boollit', ('True', 'False')))
        if c == 'nested':
            base = self.base_msg()
            m = ('field', 'm') if base is None else ('dot', base, 'm')
            return ('dot', m, 'ok')
        if c == 'idx':
            return ('idx', self.ref(BOOLARR_FIELDS), ('lit', 'num', s.pick('idxlit', ('0', '1'))))
        return ('var', s.pick('qvar', bv))

    def str_leaf(self):
        if self.sim.coin('strlit', 0.5):
            if self.sim.coin('richstr', 0.4):
                return ('lit', 'str', string_literal(self.sim))
            return ('lit', 'str', self.sim.pick('strlitv', STR_LITS))
        return self.ref(STR_FIELDS)

    # -- compounds ------------------------------------------------------------

    def num_compound(self, d):
        """A compound whose elements are numbers: array field, set literal or range literal."""
        s = self.sim
        c = s.weighted('compound', [(2, 'arr'), (3, 'set'), (3, 'range')])
        if c == 'arr':
            return self.ref(NUMARR_FIELDS)
        if c == 'set':
            n = s.randint('setn', 1, 4)
            elems = [self.num(d + 1) if s.coin('setelem', 0.5) else self.num_lit() for _ in range(n)]
            if n > 1 and s.coin('setdup', self.trig_bias):
                elems[s.choose('dupat', n)] = elems[s.choose('dupfrom', n)]
            return ('set', elems)
        # range: literal bounds mostly (function folding needs them), non-literal sometimes
        if s.coin('rangelit', 0.7):
            lo = s.randint('rlo', -2, 3)
            hi = lo + s.randint('rspan', 0, 4)
            lo_t = ('lit', 'num', str(lo)) if lo >= 0 else ('neglit', str(-lo))
            hi_t = ('lit', 'num', str(hi)) if hi >= 0 else ('neglit', str(-hi))
        else:
            lo_t = self.num(d + 2)
            hi_t = self.num(d + 2)
        return ('range', lo_t, hi_t, s.coin('exlo', 0.3), s.coin('exhi', 0.3))

    # -- numbers --------------------------------------------------------------

    def num(self, d=0):
        s = self.sim
        if d >= self.max_depth or s.coin('numleaf?', 0.25 + 0.1 * d):
            t = self.num_leaf()
        else:
            if self.pool['num'] and s.coin('numreuse', self.trig_bias * 0.4):
                return s.pick('numpool', self.pool['num'])
            c = s.weighted('numnode', [(6, 'bin'), (1.5, 'neg'), (2.5, 'fun'), (2.5, 'agg'),
                                       (1.0 if self.allow_api else 0, 'api')])
            if c == 'bin':
                t = self.num_bin(d)
            elif c == 'neg':
                t = ('un', '-', self.num(d + 1))
            elif c == 'fun':
                t = ('call', s.pick('fun1', NUM_FUNS_1), self.num(d + 1))
            elif c == 'agg':
                t = ('call', s.pick('agg', AGG_FUNS), self.num_compound(d + 1))
            else:
                t = self.num_api(d)
        if term_size(t) <= 12:
            self.pool['num'].append(t)
        return t

    def num_bin(self, d):
        s = self.sim
        op = s.weighted('arith', [(3, '+'), (3, '-'), (3, '*'), (2, '/'), (1.5, '**')])
        a = self.num(d + 1)
        if op == '**':
            # exponents are small literals or contain a reference: a constant power tower would
            # make the library's constant folding compute astronomically large integers
            if s.coin('explitq', 0.7):
                b = ('lit', 'num', s.pick('explit', ('0', '1', '2', '3', '0.5')))
            else:
                r = self.ref(NUM_FIELDS)
                b = r if s.coin('expref', 0.5) else ('bin', s.pick('expop', ('+', '-', '*')), r, self.num_lit())
            if s.coin('powchain', self.trig_bias * 0.5):
                return ('bin', '**', ('bin', '**', a, b), self.ref(NUM_FIELDS) if s.coin('pc', 0.5) else ('lit', 'num', '2'))
            return ('bin', '**', a, b)
        if s.coin('trig', self.trig_bias):
            # rule triggers: e op e, e op -e, literal identities, nested same-operator chains
            c = s.choose('trigkind', 14)
            if c >= 12:
                return ('bin', op, a, variant(s, a))
            if c >= 9:
                b = self.num(d + 2)
                inv = {'+': '-', '-': '+', '*': '/', '/': '*'}.get(op, '-')
                if c == 9:
                    return ('bin', inv, ('bin', op, a, b), s.pick('cancel', (a, b)))
                if c == 10:
                    return ('bin', op, ('bin', inv, a, b), b)
                return ('call', s.pick('idem', ('abs', 'max', 'min')), ('set', [a, ('un', '-', a), a])) if s.coin('idemset', 0.5) else ('call', 'abs', ('un', '-', a))
            if c == 7:
                # (a op lit) op (b op c): both sides are applications of the same operator
                return ('bin', op, ('bin', op, a, self.num_lit()), ('bin', op, self.num(d + 2), self.num(d + 2)))
            if c == 8:
                return ('bin', op, ('bin', op, self.num(d + 2), a), ('bin', op, self.ref(NUM_FIELDS), self.num_lit()))
            if c == 0:
                return ('bin', op, a, a)
            if c == 1:
                return ('bin', op, a, ('un', '-', a))
            if c == 2:
                return ('bin', op, a, ('lit', 'num', s.pick('idlit', ('0', '1'))))
            if c == 3:
                return ('bin', op, ('lit', 'num', s.pick('idlit', ('0', '1', '2'))), a)
            if c == 4:
                return ('bin', op, ('bin', op, a, self.num_lit()), self.num(d + 2))
            if c == 5:
                return ('bin', op, self.num(d + 2), ('bin', op, a, self.num_lit()))
            if c == 6:
                b = self.num(d + 2)
                return ('bin', '*', ('bin', '/', a, b), b)
        return ('bin', op, a, self.num(d + 1))

    def num_api(self, d):
        s = self.sim
        if s.coin('apibin', 0.3):
            args = [self.num_lit() if s.coin('binlit', 0.5) else self.num(d + 2) for _ in range(2)]
            return ('callv', s.pick('binfun', BINARY_FUNS), args)
        n = s.randint('nvar', 2, 4)
        args = [self.num_lit() if s.coin('varlit', 0.5) else self.num(d + 2) for _ in range(n)]
        return ('callv', s.pick('varfun', VARIADIC_FUNS), args)

    # -- booleans -------------------------------------------------------------

    def deep_chain(self, d):
        """One construct nested far deeper than the general depth bound (6-12 levels)."""
        s = self.sim
        t = self.boolean(self.max_depth - 1)
        kind = s.choose('deepkind', 4)
        n = s.randint('deepn', 6, 12)
        if kind == 3:
            n = min(n, 4)  # the library's cost more than doubles with every nested `iff` (4.5 s at ten levels)
        for i in range(n):
            if kind == 0:
                t = ('un', 'not', t)
            elif kind == 1:
                t = ('bin', 'implies', self.bool_leaf(), t) if i % 2 else ('bin', 'implies', t, self.bool_leaf())
            elif kind == 2:
                t = ('bin', s.pick('deepconn', ('and', 'or')), t, self.bool_leaf() if i % 3 else ('lit', 'bool', s.pick('deeplit', ('True', 'False'))))
            else:
                t = ('bin', 'iff', t, self.bool_leaf())
        return t

    def boolean(self, d=0):
        s = self.sim
        if d == 0 and s.coin('deepchain', 0.03):
            return self.deep_chain(d)
        if d >= self.max_depth or s.coin('boolleaf?', 0.15 + 0.1 * d):
            t = self.bool_leaf()
        else:
            if self.pool['bool'] and s.coin('boolreuse', self.trig_bias * 0.5):
                return s.pick('boolpool', self.pool['bool'])
            c = s.weighted('boolnode', [(5, 'conn'), (2, 'not'), (4, 'rel'), (2, 'eq'), (1.5, 'in'),
                                        (1.5 if self.allow_quant else 0, 'quant'), (0.5, 'boolfun')])
            if c == 'conn':
                t = self.bool_conn(d)
            elif c == 'not':
                t = ('un', 'not', self.boolean(d + 1))
            elif c == 'rel':
                t = self.rel(d)
            elif c == 'eq':
                t = self.eq(d)
            elif c == 'in':
                t = ('bin', 'in', self.num(d + 1), self.num_compound(d + 1))
            elif c == 'quant':
                t = self.quant(d)
            else:
                t = ('call', 'bool', self.num(d + 1))
        if term_size(t) <= 14:
            self.pool['bool'].append(t)
        return t

    def bool_conn(self, d):
        s = self.sim
        op = s.weighted('conn', [(4, 'and'), (4, 'or'), (2, 'implies'), (2, 'iff')])
        a = self.boolean(d + 1)
        if s.coin('trigb', self.trig_bias):
            c = s.choose('trigbkind', 17)
            if c >= 14 and self.allow_quant and d + 2 < self.max_depth:
                # sibling quantifiers over the same domain, same kind
                dom = self.num_compound(d + 2)
                self.force_quantifier = s.pick('sibq', ('forall', 'exists'))
                try:
                    q1 = self.quant(d + 1, dom)
                    q2 = self.quant(d + 1, dom)
                finally:
                    self.force_quantifier = None
                if self.free_vars and q1[2] != q2[2] and q1[2] in FREE_VARS and s.coin('sibfree', 0.8):
                    # the second body also mentions, FREE, the name the first one binds
                    extra = ('bin', s.pick('sibrel', RELOPS + EQOPS), ('var', q1[2]), self.num_lit())
                    q2 = (q2[0], q2[1], q2[2], q2[3], ('bin', s.pick('sibconn', ('and', 'or')), q2[4], extra))
                return ('bin', op, q1, q2)
            if c == 13 or (c == 4 and s.coin('chainpool', 0.5)):
                # a chain of 4-6 members drawn, with repetition, from two or three terms and their
                # negations, nested either way: duplicates for the set-based de-duplication to find,
                # negations in every position the iteration order can put them
                basis = [a, self.boolean(d + 2)] + ([self.bool_leaf()] if s.coin('chain3', 0.5) else [])
                members = []
                for _ in range(s.randint('chainlen', 4, 6)):
                    m = s.pick('chainm', basis)
                    members.append(('un', 'not', m) if s.coin('chainneg', 0.35) else m)
                members[s.choose('chaindup', len(members) - 1) + 1] = members[0]
                t = members[0]
                if s.coin('chainright', 0.5):
                    t = members[-1]
                    for m in reversed(members[:-1]):
                        t = ('bin', op, m, t)
                else:
                    for m in members[1:]:
                        t = ('bin', op, t, m)
                return t
            if c in (11, 12):
                return ('bin', op, a, variant(s, a)) if c == 11 else ('bin', op, ('un', 'not', a), variant(s, a))
            if c >= 8:
                # two comparisons over the same operands, related by their operators
                x, y = self.num(d + 2), (self.num(d + 2) if s.coin('rl', 0.5) else self.num_lit())
                r1 = s.pick('rel1', RELOPS + EQOPS)
                r2 = s.pick('rel2', RELOPS + EQOPS)
                left = ('bin', r1, x, y)
                right = ('bin', r2, y, x) if c == 9 else ('bin', r2, x, y)
                if c == 10:
                    right = ('un', 'not', right)
                return ('bin', op, left, right)
            if c == 6:
                return ('bin', op, ('bin', op, a, ('lit', 'bool', s.pick('blit', ('True', 'False')))), ('bin', op, self.boolean(d + 2), self.boolean(d + 2)))
            if c == 7:
                return ('bin', op, ('bin', op, self.boolean(d + 2), a), ('bin', op, self.ref(BOOL_FIELDS), self.boolean(d + 2)))
            if c == 0:
                return ('bin', op, a, a)
            if c == 1:
                return ('bin', op, a, ('un', 'not', a))
            if c == 2:
                return ('bin', op, ('un', 'not', a), a)
            if c == 3:
                b = self.boolean(d + 2)
                return ('bin', op, a, ('bin', op, b, a))  # p op (q op p): dedup -> set iteration
            if c == 4:
                b = self.boolean(d + 2)
                cc = self.boolean(d + 2)
                return ('bin', op, ('bin', op, a, b), ('bin', op, cc, ('bin', op, b, a)))
            if c == 5:
                return ('bin', op, a, ('lit', 'bool', s.pick('blit', ('True', 'False'))))
        return ('bin', op, a, self.boolean(d + 1))

    def shifted_pair(self, a):
        """(a op1 l1, a op2 l2): the same term shifted/scaled by literals that are equal, negatives
        of each other, or unrelated."""
        s = self.sim
        l1 = self.num_lit()
        k = s.choose('shiftrel', 4)
        if k == 0:
            l2 = l1
        elif k == 1:
            l2 = ('neglit', l1[2]) if l1[0] == 'lit' else ('lit', 'num', l1[1])
        elif k == 2:
            l2 = ('un', '-', l1)
        else:
            l2 = self.num_lit()
        ops = ('+', '-', '*', '/')
        if s.coin('cancelchain', 0.3):
            # a term shifted and shifted back (or not quite), compared with the bare term
            o1 = s.pick('ccop1', ('+', '-'))
            o2 = s.pick('ccop2', ('+', '-'))
            chain = ('bin', o2, ('bin', o1, a, l1), l2)
            return (chain, a) if s.coin('ccside', 0.7) else (a, chain)
        return ('bin', s.pick('shop1', ops), a, l1), ('bin', s.pick('shop2', ops), a, l2)

    def rel(self, d):
        s = self.sim
        op = s.pick('relop', RELOPS)
        a = self.num(d + 1)
        if s.coin('trigshift', self.trig_bias * 0.4):
            x, y = self.shifted_pair(a)
            return ('bin', op, x, y)
        if s.coin('trigr', self.trig_bias):
            c = s.choose('trigrkind', 4)
            if c == 0:
                return ('bin', op, a, a)
            if c == 1:
                return ('bin', op, self.num_lit(), a)
            if c == 2:
                return ('bin', op, ('bin', s.pick('ar', ARITH), a, self.num_lit()), a)
            if c == 3:
                return ('bin', op, ('bin', s.pick('ar', ARITH), self.num_lit(), a), self.num(d + 2))
        return ('bin', op, a, self.num(d + 1))

    def eq(self, d):
        s = self.sim
        op = s.pick('eqop', EQOPS)
        kind = s.weighted('eqkind', [(5, 'num'), (2, 'bool'), (1.5, 'str')])
        if kind == 'str':
            return ('bin', op, self.str_leaf(), self.str_leaf())
        g = self.num if kind == 'num' else self.boolean
        a = g(d + 1)
        if kind == 'num' and s.coin('trigshifte', self.trig_bias * 0.6):
            x, y = self.shifted_pair(a)
            return ('bin', op, x, y)
        if s.coin('trigvariant', self.trig_bias * 0.4):
            return ('bin', op, a, variant(s, a))
        if s.coin('trige', self.trig_bias):
            c = s.choose('trigekind', 6)
            if c == 0:
                return ('bin', op, a, a)
            if c == 1 and kind == 'num':
                return ('bin', op, ('bin', s.pick('ar', ARITH), a, self.num_lit()), a)
            if c == 2 and kind == 'num':
                return ('bin', op, a, ('un', '-', a))
            if c == 3 and kind == 'num':
                return ('bin', op, self.num_lit(), a)
            if c == 4:
                # nested equalities: exercises the operator-algebra flags
                e1 = ('bin', op, a, self.num_lit() if kind == 'num' else self.bool_leaf())
                b = g(d + 2)
                c2 = g(d + 2)
                return ('bin', op, e1, ('bin', op, b, c2))
            if c == 5 and kind == 'bool':
                return ('bin', op, a, ('un', 'not', a))
        return ('bin', op, a, g(d + 1))

    def quant(self, d, dom=None):
        s = self.sim
        self.vcount += 1
        # names are drawn from a small pool, so siblings may share a name and a FREE variable of that
        # name may occur elsewhere in the term (spelling coincidences are part of the language)
        v = 'v%d' % (self.vcount if self.unique_vars else 1 + s.choose('qvname', 3))
        if self.wordy:
            taken = {n for n, _t in self.qvars}
            free = [w for w in WORDY_NAMES if w not in taken]
            if free:
                v = s.pick('wordyvar', free)
        dom = dom if dom is not None else self.num_compound(d + 1)
        q = self.force_quantifier or s.pick('quantifier', ('forall', 'exists'))
        self.qvars.append((v, 'num'))
        try:
            uk = s.choose('quse', 6)
            if uk == 0:
                # the variable stays as wide as the language allows (compared with an untyped field)
                use = ('bin', s.pick('qeq', EQOPS), ('var', v), self.ref(NUM_FIELDS))
            elif uk == 1:
                use = ('bin', 'in', ('var', v), self.ref(NUMARR_FIELDS))
            elif uk == 2:
                use = ('bin', '>', ('call', 'abs', ('var', v)), self.num_lit())
            else:
                use = ('bin', s.pick('qrel', RELOPS + EQOPS), ('var', v), self.num(d + 2))
            if s.coin('qmore', 0.5):
                body = ('bin', s.pick('qconn', ('and', 'or', 'implies')), use, self.boolean(d + 2))
            else:
                body = use
        finally:
            self.qvars.pop()
        return ('quant', q, v, dom, body)


###############################################################################
# Term utilities for shrinking
###############################################################################


def variant(sim, t):
    """A near-copy of a term: one local change that a too-coarse equality might not see (own field
    vs. the same field of an alias, another index, a toggled range bound, 1 vs 1.0, -a vs a)."""
    sites = [(path, sub) for path, sub in walk(t) if sub[0] in ('field', 'dot', 'idx', 'range', 'lit', 'un', 'neglit')]
    if not sites:
        return ('un', '-', t) if term_type(t) == 'num' else ('un', 'not', t)
    path, sub = sim.pick('varsite', sites)
    k = sub[0]
    if k == 'field':
        new = ('dot', ('var', 'A'), sub[1])
    elif k == 'dot' and sub[1][0] == 'var':
        new = ('field', sub[2]) if sub[2] not in MSG_FIELDS else sub
    elif k == 'idx':
        new = ('idx', sub[1], ('lit', 'num', '1') if sub[2] != ('lit', 'num', '1') else ('lit', 'num', '0'))
    elif k == 'range':
        new = ('range', sub[1], sub[2], not sub[3], sub[4]) if sim.coin('vr', 0.5) else ('range', sub[1], sub[2], sub[3], not sub[4])
    elif k == 'lit' and sub[1] == 'num':
        new = ('lit', 'num', {'1': '1.0', '1.0': '1', '2': '2.0', '2.0': '2', '0': '0.5'}.get(sub[2], '1'))
    elif k == 'lit' and sub[1] == 'bool':
        new = ('lit', 'bool', 'False' if sub[2] == 'True' else 'True')
    elif k == 'un':
        new = sub[2]
    elif k == 'neglit':
        new = ('lit', 'num', sub[1])
    else:
        new = sub
    return replace_at(t, path, new)


def has_reference(t):
    if t[0] in ('field', 'var'):
        return True
    return any(has_reference(c) for _s, c in children_of(t))


def _sanitize_powers(t):
    """Replace every constant, non-literal exponent by the literal 2 (a constant power tower would
    make the library's constant folding compute astronomically large integers and hang)."""
    if not isinstance(t, tuple):
        return t
    out = []
    for c in t:
        if isinstance(c, tuple):
            out.append(_sanitize_powers(c))
        elif isinstance(c, list):
            out.append([_sanitize_powers(e) if isinstance(e, tuple) else e for e in c])
        else:
            out.append(c)
    t = tuple(out)
    if t[0] == 'bin' and t[1] == '**':
        e = t[3]
        if e[0] not in ('lit', 'neglit') and not has_reference(e):
            t = ('bin', '**', t[2], ('lit', 'num', '2'))
        elif (e[0] == 'lit' and e[1] == 'num' and abs(float(e[2])) > 64) or (e[0] == 'neglit' and abs(float(e[1])) > 64):
            # a huge literal exponent on a constant base is the same hang (179 ** 2147483648)
            t = ('bin', '**', t[2], ('lit', 'num', '3'))
    return t


def sanitize_powers(t):
    """Keep the library's constant folding from running for minutes: no constant power towers, no
    huge literal exponents, no aggregates over literal ranges of millions of integers."""
    return sanitize_ranges(_sanitize_powers(t))


def _lit_value(t):
    if t[0] == 'lit' and t[1] == 'num':
        return float(t[2])
    if t[0] == 'neglit':
        return -float(t[1])
    return None


def sanitize_ranges(t):
    """An aggregate (sum, prod, max, min, gcd) over a literal range of millions of integers makes the
    library's constant folding iterate over every one of them (minutes): the upper bound of such a
    range is brought within 1000 of the lower one. Ranges elsewhere keep their bounds."""
    if not isinstance(t, tuple):
        return t
    out = []
    for c in t:
        if isinstance(c, tuple):
            out.append(sanitize_ranges(c))
        elif isinstance(c, list):
            out.append([sanitize_ranges(e) if isinstance(e, tuple) else e for e in c])
        else:
            out.append(c)
    t = tuple(out)
    if t[0] in ('call', 'callv') and t[1] in ('sum', 'prod', 'max', 'min', 'gcd'):
        args = t[2] if isinstance(t[2], list) else [t[2]]
        new = []
        for a in args:
            if isinstance(a, tuple) and a[0] == 'range':
                lo, hi = _lit_value(a[1]), _lit_value(a[2])
                if lo is not None and hi is not None and abs(hi - lo) > 100000:
                    small = ('lit', 'num', '1000') if lo <= 1000 else a[1]
                    big = a[2] if hi <= 1000 else small
                    a = (a[0], a[1] if abs(lo) <= 100000 else ('lit', 'num', '0'), big) + tuple(a[3:])
            new.append(a)
        t = (t[0], t[1], new if isinstance(t[2], list) else new[0]) + tuple(t[3:])
    return t


def children_of(t):
    out = []
    for i, c in enumerate(t[1:], 1):
        if isinstance(c, tuple):
            out.append(((i,), c))
        elif isinstance(c, list):
            for j, e in enumerate(c):
                if isinstance(e, tuple):
                    out.append(((i, j), e))
    return out


def replace_at(t, path, new):
    """path: sequence of positions as produced by walk()."""
    if not path:
        return new
    step = path[0]
    i = step[0]
    lst = list(t)
    if len(step) == 1:
        lst[i] = replace_at(t[i], path[1:], new)
    else:
        inner = list(t[i])
        inner[step[1]] = replace_at(inner[step[1]], path[1:], new)
        lst[i] = inner
    return tuple(lst)


def walk(t, path=()):
    yield path, t
    for step, c in children_of(t):
        yield from walk(c, path + (step,))


def term_type(t):
    """Static type of a term under the fixed schema: 'bool' | 'num' | 'str' | 'compound' | 'msg' | None."""
    k = t[0]
    if k == 'lit':
        return t[1]
    if k in ('neglit', 'const'):
        return 'num'
    if k == 'field' or k == 'dot':
        name = t[1] if k == 'field' else t[2]
        if k == 'dot' and t[1][0] in ('field', 'dot') and (t[1][1] == 'm' or (t[1][0] == 'dot' and t[1][2] == 'm')):
            return {'x': 'num', 'ok': 'bool'}.get(name)
        if name in BOOL_FIELDS:
            return 'bool'
        if name in NUM_FIELDS:
            return 'num'
        if name in STR_FIELDS:
            return 'str'
        if name in NUMARR_FIELDS or name in BOOLARR_FIELDS:
            return 'compound'
        if name in MSG_FIELDS:
            return 'msg'
        return None
    if k == 'var':
        return None
    if k == 'dot' and t[1][0] == 'idx' and t[2] == 'x' and _leaf_name(t[1][1]) == 'pts':
        return 'num'
    if k == 'idx':
        inner = t[1]
        if inner[0] == 'idx' and _leaf_name(inner[1]) == 'grid':
            return 'num'
        if inner[0] == 'dot' and inner[2] == 'ys' and inner[1][0] == 'idx' and _leaf_name(inner[1][1]) == 'pts':
            return 'num'
        name = inner[1] if inner[0] == 'field' else inner[2] if inner[0] == 'dot' else None
        if name in NUMARR_FIELDS:
            return 'num'
        if name in BOOLARR_FIELDS:
            return 'bool'
        return None
    if k == 'un':
        return 'bool' if t[1] == 'not' else 'num'
    if k == 'bin':
        return 'num' if t[1] in ARITH else 'bool'
    if k in ('call', 'callv'):
        return 'bool' if t[1] == 'bool' else 'str' if t[1] == 'str' else 'num'
    if k in ('set', 'range'):
        return 'compound'
    if k == 'quant':
        return 'bool'
    return None


def shrink_candidates(t):
    """Smaller terms of the same static type: hoist a same-typed descendant, or replace a
    proper subterm by a same-typed descendant of it / by a small literal."""
    ty = term_type(t)
    seen = set()
    out = []

    def add(c):
        key = repr(c)
        if key not in seen and c != t:
            seen.add(key)
            out.append(c)

    # hoist descendants with no free quantified variable
    for path, sub in walk(t):
        if path and term_type(sub) == ty and not _has_free_var(sub):
            add(sub)
    # local replacements
    for path, sub in walk(t):
        if not path:
            continue
        sty = term_type(sub)
        if sty in ('bool', 'num'):
            for _p2, d in walk(sub):
                if d is not sub and term_type(d) == sty:
                    add(replace_at(t, path, d))
            lits = (('lit', 'num', '0'), ('lit', 'num', '1'), ('lit', 'num', '2')) if sty == 'num' else (
                ('lit', 'bool', 'True'), ('lit', 'bool', 'False'))
            for lit in lits:
                if sub != lit:
                    add(replace_at(t, path, lit))
            if sty == 'num' and sub[0] != 'field':
                add(replace_at(t, path, ('field', 'x')))
            if sty == 'bool' and sub[0] != 'field':
                add(replace_at(t, path, ('field', 'p')))
        if sub[0] == 'set' and len(sub[1]) > 1:
            for j in range(len(sub[1])):
                add(replace_at(t, path, ('set', sub[1][:j] + sub[1][j + 1:])))
        if sub[0] == 'callv' and len(sub[2]) > 2:
            for j in range(len(sub[2])):
                add(replace_at(t, path, ('callv', sub[1], sub[2][:j] + sub[2][j + 1:])))
    out.sort(key=term_size)
    return out


def _has_free_var(t, bound=()):
    k = t[0]
    if k == 'var':
        return t[1] not in ALIASES and t[1] not in bound and t[1] not in FREE_VARS
    if k == 'quant':
        return _has_free_var(t[3], bound) or _has_free_var(t[4], bound + (t[2],))
    for _step, c in children_of(t):
        if _has_free_var(c, bound):
            return True
    return False


###############################################################################
# Valuations for the fixed schema
###############################################################################

NUM_GRID = (Fraction(-2), Fraction(-1), Fraction(-1, 2), Fraction(0), Fraction(1, 2), Fraction(1),
            Fraction(2), Fraction(3), Fraction(1, 10), Fraction(255), Fraction(1000), Fraction(-360))
ARR_GRID = ((), (Fraction(1),), (Fraction(1), Fraction(2)), (Fraction(0), Fraction(-1), Fraction(2)),
            (Fraction(2), Fraction(2)), (Fraction(3), Fraction(1), Fraction(1, 2), Fraction(0)),
            (Fraction(5), Fraction(-3), Fraction(0), Fraction(255), Fraction(1, 10), Fraction(2), Fraction(2)))
BARR_GRID = ((), (True,), (False, True), (True, True, False))
STR_GRID = ('', 'a', 'ab')


def free_refs(t, acc=None):
    """Set of ('this'|alias, path...) leaves referenced by a term."""
    if acc is None:
        acc = set()
    k = t[0]
    if k == 'field':
        acc.add(('this', t[1]))
    elif k == 'dot':
        chain = []
        cur = t
        while cur[0] == 'dot':
            chain.append(cur[2])
            cur = cur[1]
        if cur[0] == 'field':
            acc.add(('this', cur[1]) + tuple(reversed(chain)))
        elif cur[0] == 'var':
            acc.add((cur[1],) + tuple(reversed(chain)))
        else:
            free_refs(cur, acc)
    else:
        for _s, c in children_of(t):
            free_refs(c, acc)
    return acc


FREE_VARS = ('v1', 'v2', 'v3')


def _leaf_name(t):
    return t[1] if t[0] == 'field' else t[2] if t[0] == 'dot' else None


def make_message(sim, label='msg'):
    """One message valuation for the fixed schema."""
    m = {}
    for f in BOOL_FIELDS:
        m[f] = sim.coin(label + '.b')
    for f in NUM_FIELDS:
        m[f] = sim.pick(label + '.n', NUM_GRID)
    for f in STR_FIELDS:
        m[f] = sim.pick(label + '.s', STR_GRID)
    for f in NUMARR_FIELDS:
        m[f] = sim.pick(label + '.a', ARR_GRID)
    for f in BOOLARR_FIELDS:
        m[f] = sim.pick(label + '.ba', BARR_GRID)
    m['m'] = {'x': sim.pick(label + '.mx', NUM_GRID), 'ok': sim.coin(label + '.mok')}
    # an array of arrays and an array of messages; all entries distinct, so a swapped index shows
    base = sim.choose(label + '.gridbase', 5)
    m['grid'] = tuple(tuple(Fraction(base + 10 * r + c) for c in range(3)) for r in range(3))
    m['pts'] = tuple({'x': Fraction(base + 100 + i), 'ys': tuple(Fraction(base + 200 + 10 * i + j) for j in range(3))} for i in range(3))
    return m


def valuation_to_json(env):
    def conv(v):
        if isinstance(v, Fraction):
            return str(v)
        if isinstance(v, dict):
            return {k: conv(x) for k, x in v.items()}
        if isinstance(v, (tuple, list)):
            return [conv(x) for x in v]
        return v
    return conv(env)


def valuation_from_json(doc):
    def conv(v):
        if isinstance(v, str) and re.fullmatch(r'-?\d+(/\d+)?', v):
            return Fraction(v)
        if isinstance(v, dict):
            return {k: conv(x) for k, x in v.items()}
        if isinstance(v, list):
            return tuple(conv(x) for x in v)
        return v
    out = {}
    for k, v in doc.items():
        out[k] = conv(v)
    # string fields must stay strings even if they look numeric
    for msg in out.values():
        if isinstance(msg, dict):
            for f in STR_FIELDS:
                if f in msg and not isinstance(msg[f], str):
                    msg[f] = str(msg[f])
    return out


###############################################################################
# Properties
###############################################################################

TOPICS = ('a', 'b', 'c', 'd', 'e', 'f')
ROS_TOPICS = ('/cmd_vel', 'ns/topic', '~priv', '/a/b2', 'odom_1', '/robot_0/scan', 'Topic', 'cmd_vel')
SCOPES = ('globally', 'after', 'until', 'after_until')
PATTERNS = ('existence', 'absence', 'response', 'requirement', 'prevention')


def render_event(ev):
    """ev: ('ev', topic, alias|None, predterm|None) or ('or', [ev, ...])"""
    if ev[0] == 'or':
        return '(%s)' % ' or '.join(render_event(e) for e in ev[1])
    s = ev[1]
    if ev[2]:
        s += ' as ' + ev[2]
    if ev[3] is not None:
        s += ' { %s }' % render(ev[3])
    return s


def render_bound(ms):
    if ms is None:
        return ''
    if isinstance(ms, float) and ms != int(ms):
        return ' within %r ms' % ms
    ms = int(ms)
    if ms % 1000 == 0:
        return ' within %d s' % (ms // 1000)
    if ms % 500 == 0:
        return ' within %r s' % (ms / 1000.0)
    return ' within %d ms' % ms


def render_property(p):
    """p: dict(meta=[(key, value)], scope=(kind, act, term), pattern=(kind, trigger, behaviour, bound_ms))"""
    out = []
    for k, v in p.get('meta') or ():
        out.append('# %s: %s' % (k, v))
    kind, act, term = p['scope']
    if kind == 'globally':
        sc = 'globally'
    elif kind == 'after':
        sc = 'after ' + render_event(act)
    elif kind == 'until':
        sc = 'until ' + render_event(term)
    else:
        sc = 'after %s until %s' % (render_event(act), render_event(term))
    pk, trig, beh, bound = p['pattern']
    b = render_bound(bound)
    if pk == 'existence':
        pt = 'some %s%s' % (render_event(beh), b)
    elif pk == 'absence':
        pt = 'no %s%s' % (render_event(beh), b)
    elif pk == 'response':
        pt = '%s causes %s%s' % (render_event(trig), render_event(beh), b)
    elif pk == 'requirement':
        pt = '%s requires %s%s' % (render_event(beh), render_event(trig), b)
    else:
        pt = '%s forbids %s%s' % (render_event(trig), render_event(beh), b)
    out.append('%s: %s' % (sc, pt))
    return '\n'.join(out)


class PropGen:
    """Random properties over the fixed schema; alias placement follows HPL's binding order."""

    def __init__(self, sim, max_depth=3, topics=None, with_meta=True, allow_consts=False):
        self.sim = sim
        self.max_depth = max_depth
        if topics is None:
            topics = ROS_TOPICS if sim.coin('rostopics', 0.3) else TOPICS
        self.topics = topics
        self.with_meta = with_meta
        self.allow_consts = allow_consts
        self.acount = 0
        self.wordy = sim.coin('wordyaliases', 0.12)
        # identifiers of one project written by several hands: the same words, other capitals
        self.id_pool = CASE_IDS if sim.coin('caseids', 0.12) else None

    def predicate(self, visible):
        s = self.sim
        if s.coin('nopred', 0.3):
            return None
        eg = ExprGen(s, max_depth=self.max_depth, allow_alias=False, allow_quant=s.coin('pq', 0.3),
                     allow_consts=self.allow_consts)
        t = eg.boolean(0)
        if t[0] == 'lit':
            # `{ True }` / `{ False }` are legal and give vacuous predicates
            return t if s.coin('keepvacuous', 0.5) else None
        if s.coin('vacuouspred', 0.04):
            return ('lit', 'bool', s.pick('vacv', ('True', 'False')))
        if visible and s.coin('useref', 0.5):
            al = s.pick('refalias', visible)
            t = ('bin', 'and', t, ('bin', s.pick('refop', RELOPS + EQOPS), ('field', 'x'),
                                   ('dot', ('var', al), s.pick('reffield', NUM_FIELDS))))
        return t

    def simple(self, topic, visible, may_alias=True):
        s = self.sim
        alias = None
        if may_alias and s.coin('alias?', 0.4):
            self.acount += 1
            alias = 'M%d' % self.acount
            if self.wordy and self.acount <= len(WORDY_NAMES):
                # `after /rosout as log {...}`: an alias spelled like a built-in function
                alias = WORDY_NAMES[(self.acount - 1 + s.choose('wordyalias', len(WORDY_NAMES))) % len(WORDY_NAMES)]
                while alias in getattr(self, '_used_aliases', ()):
                    alias = WORDY_NAMES[(WORDY_NAMES.index(alias) + 1) % len(WORDY_NAMES)]
                self._used_aliases = getattr(self, '_used_aliases', ()) + (alias,)
        pred = self.predicate(visible)
        if alias and s.coin('ownalias', 0.3):
            # an event may refer to its own alias (it is rewritten to the message itself)
            own = ('bin', s.pick('ownop', RELOPS + EQOPS), ('dot', ('var', alias), s.pick('ownf', NUM_FIELDS)), self.own_rhs())
            pred = own if pred is None or pred[0] == 'lit' else ('bin', 'and', pred, own)
        return ('ev', topic, alias, pred), ([alias] if alias else [])

    def own_rhs(self):
        s = self.sim
        return ('field', s.pick('ownrf', NUM_FIELDS)) if s.coin('ownfield', 0.5) else ('lit', 'num', s.pick('ownlit', NUM_LITS))

    def event(self, visible, width=None, may_alias=True):
        s = self.sim
        if width is None:
            width = s.weighted('width', [(5, 1), (3, 2), (2, 3)])
        perm = s.permutation('topics', len(self.topics))
        topics = [self.topics[i] for i in perm[:width]]
        evs, aliases = [], []
        for tp in topics:
            e, al = self.simple(tp, visible, may_alias)
            evs.append(e)
            aliases += al
        if width == 1:
            return evs[0], aliases
        return ('or', evs), aliases

    def prop(self, scope=None, pattern=None):
        s = self.sim
        scope = scope or s.pick('scope', SCOPES)
        pattern = pattern or s.pick('pattern', PATTERNS)
        act = term = trig = None
        vis = []
        if scope in ('after', 'after_until'):
            act, al = self.event([])
            vis = list(al)
        avis = list(vis)
        if pattern in ('existence', 'absence'):
            beh, _ = self.event(vis)
        elif pattern == 'requirement':
            beh, al = self.event(vis)
            trig, _ = self.event(vis + al)
        else:
            trig, al = self.event(vis)
            beh, _ = self.event(vis + al)
        if scope in ('until', 'after_until'):
            # terminator sees only the activator's aliases, and must not rebind them
            term, _ = self.event(avis, may_alias=False)
        bound = s.weighted('bound', [(4, None), (1, 1), (1, 50), (1, 100), (1, 1000), (1, 2500), (0.6, 0.5), (0.5, 0), (0.5, 1500), (0.4, 0.25)])
        meta = []
        if self.with_meta and s.coin('meta', 0.4):
            keys = ['id', 'title', 'description']
            for i in s.permutation('metaorder', 3)[:s.randint('nmeta', 1, 3)]:
                k = keys[i]
                if k == 'id':
                    meta.append((k, s.pick('caseid', self.id_pool) if self.id_pool else 'p%d' % s.choose('pid', 100)))
                elif s.coin('richmeta', 0.4):
                    meta.append((k, string_literal(s)))
                else:
                    meta.append((k, '"%s %d"' % (k, s.choose('mv', 100))))
        if self.id_pool and self.with_meta and not any(k == 'id' for k, _v in meta):
            meta.insert(0, ('id', s.pick('caseid2', self.id_pool)))
        return {'meta': meta, 'scope': (scope, act, term), 'pattern': (pattern, trig, beh, bound)}


###############################################################################
# Tokens and mutation (fault texts)
###############################################################################

TOKEN_RE = re.compile(r'"(?:[^"\\]|\\.)*"|@?[A-Za-z_][A-Za-z_0-9]*|[/~][A-Za-z][\w/]*|\d+\.\d+|\d+|\*\*|!=|<=|>=|!\[|\]!|[^\sA-Za-z_0-9]')

HPL_TOKENS = ('globally', 'after', 'until', 'some', 'no', 'causes', 'requires', 'forbids', 'within',
              'as', 'or', 'and', 'not', 'implies', 'iff', 'forall', 'exists', 'in', 'to', 'True',
              'False', 'PI', 'E', 'INF', 'NAN', '(', ')', '{', '}', '[', ']', '![', ']!', ':', ',',
              '.', '+', '-', '*', '/', '**', '=', '!=', '<', '<=', '>', '>=', '@A', '@v1', 'x', 'y',
              'p', 'q', 'xs', 'm', '0', '1', '2.5', '"a"', 'a', 'b', '/a/b', '~c', 'ms', 's', '#',
              'id', 'title', 'description', 'abs', 'len', 'max', 'foo', 'notx', 'inx', 'ort',
              'android', 'forallx', 'True1', '@', '§', '$', '\\', '"', "'", ';', '|', '&', '%', '^',
              '1e5', '1.', '.5', '0x1', '１', 'é', '​', '\x00', '\t', '\n')


def tokenize(text):
    return TOKEN_RE.findall(text)


SIBLINGS = (('x', 'y', 'k', 'linear_x', 'v2', '_w', 'inside'), ('p', 'q', 'ok', 'not_ready', 'is_on'), ('xs', 'bs', 'ranges'), ('a', 'b', 'c', 'd', 'e', 'f'), ('/cmd_vel', 'ns/topic', '~priv', '/a/b2', 'odom_1'), ('txt', 'frame_id'), ('0', '1', '2', '3'),
            ('@A', '@B'), ('abs', 'floor', 'ceil', 'int'), ('len', 'sum', 'max', 'min'), ('<', '<=', '>', '>='),
            ('and', 'or'), ('forall', 'exists'), ('some', 'no'), ('causes', 'forbids'), ('0.5', '1.5', '2.5'))


def sibling_text(sim, text, n=None):
    """A near-duplicate of a text: one to three tokens replaced by tokens of the same kind. Two such
    texts collide in any cache keyed by something lossy (printed forms, shapes, token kinds)."""
    toks = tokenize(text)
    idx = [i for i, t in enumerate(toks) if any(t in grp for grp in SIBLINGS)]
    if not idx:
        return text
    for _ in range(n if n is not None else sim.randint('nsib', 1, 3)):
        i = sim.pick('sibpos', idx)
        grp = next(g for g in SIBLINGS if toks[i] in g)
        alt = [t for t in grp if t != toks[i]]
        toks[i] = sim.pick('sibtok', alt)
    return ' '.join(toks)


def mutate_tokens(sim, text, nmut=None):
    toks = tokenize(text)
    if not toks:
        return sim.pick('tok', HPL_TOKENS)
    n = nmut if nmut is not None else sim.randint('nmut', 1, 3)
    for _ in range(n):
        c = sim.choose('mutkind', 6)
        i = sim.choose('mutpos', len(toks)) if toks else 0
        if c == 0 and toks:
            del toks[i]
        elif c == 1:
            toks.insert(i, sim.pick('tok', HPL_TOKENS))
        elif c == 2 and toks:
            toks[i] = sim.pick('tok', HPL_TOKENS)
        elif c == 3 and len(toks) > 1:
            j = sim.choose('mutpos2', len(toks))
            toks[i], toks[j] = toks[j], toks[i]
        elif c == 4 and toks:
            toks = toks[:i]  # truncation (EOF)
        elif c == 5 and toks:
            toks.insert(i, toks[i])  # duplication
        if not toks:
            toks = [sim.pick('tok', HPL_TOKENS)]
    return ' '.join(toks)


def random_unicode(sim, n=None):
    n = n if n is not None else sim.randint('ulen', 0, 24)
    pools = ((0x20, 0x7e), (0x0, 0x1f), (0xa0, 0x24f), (0x370, 0x3ff), (0x2000, 0x206f), (0xff00, 0xffef),
             (0x1f600, 0x1f64f), (0x660, 0x669))
    out = []
    for _ in range(n):
        lo, hi = sim.pick('upool', pools)
        out.append(chr(sim.randint('uch', lo, hi)))
    return ''.join(out)


def random_tokens(sim, n=None):
    n = n if n is not None else sim.randint('tlen', 1, 20)
    return ' '.join(sim.pick('tok', HPL_TOKENS) for _ in range(n))
