"""C12 - splitting a pattern over event alternatives preserves trace semantics (DESIGN 5).

A run = one generated property (activator simple) + one discrete-event simulation of a small
pub/sub system (publishers with timers, a faulty transport, a recorder with its own clock) that
produces a timed message history. After every delivered message (online) the reference monitor
must give the same verdict for the property and for the conjunction of its canonical form, under
both readings of scope re-activation.
"""

import argparse
import copy
import heapq
import os
import pickle
import time
from fractions import Fraction

from hplsim import build, core, gen, monitor

PROP = 'C12'

TIERS = {
    'quick': dict(runs=150000, wall=300, max_events=40),
    'thorough': dict(runs=600000, wall=2400, max_events=60),
}

TOPICS = ('a', 'b', 'c', 'd', 'e', 'f', 'g', 'h')
# "wide" runs: a property that lists every sensor of a robot (27-34 alternatives in one position)
WIDE40 = tuple('/robot/sensor%d' % i for i in range(1, 41))
ROS8 = ('/cmd_vel', 'ns/topic', '~priv', '/a/b2', 'odom_1', '/robot_0/scan', 'Topic', 'cmd_vel')
BOUNDS = (None, None, 0, 1, 50, 100, 250, 1000, 2500, 0.5, 100.5, 1500, 70, 300, 33.3, 16.7, 1.5)

###############################################################################
# Property generation (activator always simple)
###############################################################################


def _num12(sim, visible):
    """A total numeric term over the payload (and visible aliases)."""
    k = sim.weighted('numk', [(4, 'f'), (2, 'lit'), (2.0 if visible else 0, 'aref'), (1.5, 'arith'), (0.7, 'abs')])
    if k == 'f':
        return ('field', sim.pick('nf', ('x', 'y')))
    if k == 'lit':
        return ('lit', 'num', sim.pick('nl', ('0', '1', '2', '3')))
    if k == 'aref':
        return ('dot', ('var', sim.pick('na', visible)), sim.pick('naf', ('x', 'y')))
    if k == 'arith':
        return ('bin', sim.pick('nop', ('+', '-', '*')), _num12(sim, visible), ('lit', 'num', sim.pick('nl2', ('1', '2'))))
    return ('call', 'abs', ('bin', '-', _num12(sim, visible), _num12(sim, visible)))


def _pred(sim, visible, depth=0):
    """Predicate templates over the payload {x, y in 0..2, ok}; total (never undefined)."""
    k = sim.weighted('predk', [(3, 'none'), (2, 'cmp'), (1.5, 'in_set'), (1.5, 'in_range'), (1.5, 'ok'), (1, 'notok'),
                               (2.0 if visible else 0, 'ref'), (1, 'conj'), (0.7, 'quant'),
                               (1.5 if depth < 2 else 0, 'neg'), (1.2, 'cmp2'), (0.8 if visible else 0, 'range_ref'),
                               (0.5 if depth == 0 else 0, 'vacuous')])
    if k == 'none':
        return None
    if k == 'vacuous':
        # `{ True }` / `{ False }`: an alternative that always / never matches
        return ('lit', 'bool', sim.pick('vacv', ('True', 'False', 'False')))
    if k == 'neg':
        inner = _pred(sim, visible, depth + 1) or ('bin', sim.pick('ncmp', ('<', '<=', '>', '>=')), ('field', 'x'), _num12(sim, visible))
        return ('un', 'not', inner)
    if k == 'cmp2':
        return ('bin', sim.pick('c2op', ('<', '<=', '>', '>=', '=', '!=')), _num12(sim, visible), _num12(sim, visible))
    if k == 'range_ref':
        al = sim.pick('rral', visible)
        return ('bin', 'in', ('field', sim.pick('rrf', ('x', 'y'))), ('range', ('dot', ('var', al), 'x'), ('lit', 'num', '2'), sim.coin('rrx', 0.3), False))
    f = sim.pick('fld', ('x', 'y'))
    if k == 'cmp':
        return ('bin', sim.pick('cmpop', ('<', '<=', '>', '>=', '=', '!=')), ('field', f), ('lit', 'num', sim.pick('cmpk', ('0', '1', '2'))))
    if k == 'in_set':
        return ('bin', 'in', ('field', f), ('set', [('lit', 'num', v) for v in sim.pick('setv', (('0',), ('1', '2'), ('0', '2'), ('0', '1', '2')))]))
    if k == 'in_range':
        lo = sim.choose('rlo', 3)
        hi = lo + sim.choose('rspan', 3 - lo)
        return ('bin', 'in', ('field', f), ('range', ('lit', 'num', str(lo)), ('lit', 'num', str(hi)), sim.coin('exl', 0.3), sim.coin('exh', 0.3)))
    if k == 'ok':
        return ('field', 'ok')
    if k == 'notok':
        return ('un', 'not', ('field', 'ok'))
    if k == 'ref':
        al = sim.pick('refal', visible)
        return ('bin', sim.pick('refop', ('=', '<', '>=', '!=')), ('field', f), ('dot', ('var', al), sim.pick('reff', ('x', 'y'))))
    if k == 'conj':
        a = _pred(sim, visible, depth + 1) or ('field', 'ok')
        b = _pred(sim, visible, depth + 1) or ('bin', '>', ('field', 'x'), ('lit', 'num', '0'))
        return ('bin', sim.pick('cj', ('and', 'or', 'implies', 'iff')), a, b)
    # quantifier over a literal set (total); its variable sometimes shadows a visible alias name
    qv = sim.pick('qvshadow', visible) if visible and sim.coin('shadow', 0.3) else 'i'
    return ('quant', sim.pick('q', ('forall', 'exists')), qv, ('set', [('lit', 'num', '0'), ('lit', 'num', '1')]),
            ('bin', sim.pick('qop', ('<=', '!=', '>')), ('var', qv), ('field', f)))


class PropGen12:
    def __init__(self, sim, topics=TOPICS):
        self.sim = sim
        self.acount = 0
        self.free = list(topics)
        self.used = []
        self.wide = len(topics) >= 40
        self.wide_skip = 1 if self.wide and sim.coin('wide_second', 0.4) else 0

    def take_topics(self, n):
        """Topics are distinct inside one event; across positions a topic is sometimes reused (legal:
        `a {x > 1} causes a {x < 1}`)."""
        s = self.sim
        out = []
        for _ in range(n):
            if self.used and s.coin('reuse_topic', 0.15):
                cand = [t for t in self.used if t not in out]
                if cand:
                    out.append(s.pick('reused', cand))
                    continue
            i = s.choose('topic', len(self.free))
            out.append(self.free.pop(i))
        self.used.extend(t for t in out if t not in self.used)
        return out

    def event(self, width, visible, may_alias):
        s = self.sim
        evs = []
        aliases = []
        shared = None
        if may_alias and width > 1 and s.coin('sharedalias?', 0.3):
            # every alternative binds the same name: legal, and later events may refer to it
            self.acount += 1
            shared = 'S%d' % self.acount
            aliases.append(shared)
        for tp in self.take_topics(width):
            alias = None
            if shared is not None:
                alias = shared
            elif may_alias and width == 1 and s.coin('alias?', 0.5):
                # aliases are only bound on simple events: a reference to an alias bound inside a
                # split disjunction makes canonical_form refuse the property (C11/C14, not C12)
                self.acount += 1
                alias = 'M%d' % self.acount
                aliases.append(alias)
            elif may_alias and width > 1 and s.coin('deadalias?', 0.25):
                self.acount += 1
                alias = 'U%d' % self.acount  # bound but never referenced
            evs.append(('ev', tp, alias, _pred(s, visible)))
        return (evs[0] if width == 1 else ('or', evs)), aliases

    def prop(self):
        s = self.sim
        scope = s.pick('scope', gen.SCOPES)
        pattern = s.pick('pattern', gen.PATTERNS)
        def width():
            if self.wide:
                if self.wide_skip:
                    self.wide_skip -= 1
                else:
                    self.wide = False
                    return s.randint('widew', 27, 34)
            return min(s.weighted('width', [(4, 1), (4, 2), (2, 3), (0.6, 4)]), max(1, len(self.free) - 1))
        act = term = trig = None
        vis = []
        if scope in ('after', 'after_until'):
            act, al = self.event(1, [], True)
            vis = list(al)
        avis = list(vis)
        if pattern in ('existence', 'absence'):
            beh, _ = self.event(width(), vis, True)
        elif pattern == 'requirement':
            beh, al = self.event(width(), vis, True)
            trig, _ = self.event(width(), vis + al, True)
        elif s.coin('mirror', 0.08):
            # the same event in both positions (`(a or b) forbids (a or b) within 1 s`: a rate limit);
            # no aliases, a name can only be bound once
            trig, _ = self.event(width(), vis, False)
            beh = trig
        else:
            trig, al = self.event(width(), vis, True)
            beh, _ = self.event(width(), vis + al, True)
        if scope in ('until', 'after_until'):
            term, _ = self.event(min(width(), len(self.free)) or 1, avis, False)
        bound = s.pick('bound', BOUNDS)
        meta = [('id', 'p%d' % s.choose('pid', 50))] if s.coin('meta', 0.3) else []
        return {'meta': meta, 'scope': (scope, act, term), 'pattern': (pattern, trig, beh, bound)}


def topics_of(ev):
    if ev is None:
        return []
    if ev[0] == 'or':
        return [e[1] for e in ev[1]]
    return [ev[1]]


###############################################################################
# Discrete-event simulation of the pub/sub system
###############################################################################


class Bus:
    """Virtual clock (integer ms), event heap ordered by (time, seq), faulty transport, recorder."""

    def __init__(self, sim, cfg, on_deliver):
        self.sim = sim
        self.cfg = cfg
        self.now = 0
        self.seq = 0
        self.q = []
        self.trace = []
        self.log = []  # bus events, for the replay file
        self.on_deliver = on_deliver
        self.skew = 0  # recorder clock = now + skew (forward jumps only)
        self.partitions = {}  # topic -> until time
        self.stall_until = -1
        self.stalled = []
        self.stats = {}
        self.stop = False

    def count(self, k, n=1):
        self.stats[k] = self.stats.get(k, 0) + n

    def after(self, d, fn):
        self.seq += 1
        heapq.heappush(self.q, (self.now + d, self.seq, fn))

    def publish(self, topic, payload, exact=False):
        """A publisher hands a message to the transport."""
        c, s = self.cfg, self.sim
        self.count('published')
        if self.partitions.get(topic, -1) >= self.now:
            self.count('fault_partition_drop')
            self.log.append((self.now, 'partition-drop', topic))
            return
        if c['drop'] and s.coin('drop', c['drop']):
            self.count('fault_drop')
            self.log.append((self.now, 'drop', topic))
            return
        if exact:
            lat = 0
        else:
            lat = s.randint('lat', 0, c['jitter'])
            if c['spike'] and s.coin('spike', c['spike']):
                lat += s.randint('spikelat', 20, 400)
                self.count('fault_latency_spike')
        self.after(lat, lambda: self.arrive(topic, payload))
        if c['dup'] and s.coin('dup', c['dup']):
            self.count('fault_duplicate')
            self.log.append((self.now, 'duplicate', topic))
            self.after(lat + s.randint('duplat', 0, 30), lambda: self.arrive(topic, dict(payload)))

    def arrive(self, topic, payload):
        """A message reaches the recorder."""
        if self.now <= self.stall_until:
            self.stalled.append((topic, payload))
            self.count('fault_stalled_message')
            return
        self.record(topic, payload)

    def record(self, topic, payload):
        if self.stop:
            return
        t = self.now + self.skew
        if self.trace and t < self.trace[-1][0]:
            t = self.trace[-1][0]
        if self.trace and self.trace[-1][0] == t:
            self.count('equal_timestamps')
        msg = (t, topic, payload)
        self.trace.append(msg)
        self.count('delivered')
        self.on_deliver(self, msg)
        if len(self.trace) >= self.cfg['max_events']:
            self.stop = True

    def start_stall(self, dur):
        self.stall_until = self.now + dur
        self.count('fault_recorder_stall')
        self.log.append((self.now, 'stall', dur))
        self.after(dur + 1, self.end_stall)

    def end_stall(self):
        burst, self.stalled = self.stalled, []
        for topic, payload in burst:
            self.record(topic, payload)  # the burst is stamped with one arrival time

    def clock_jump(self, d):
        self.skew += d
        self.count('fault_clock_jump')
        self.log.append((self.now, 'clock-jump', d))

    def partition(self, topic, dur):
        self.partitions[topic] = self.now + dur
        self.count('fault_partition')
        self.log.append((self.now, 'partition', topic, dur))

    def run(self, until):
        while self.q and not self.stop:
            t, _seq, fn = heapq.heappop(self.q)
            if t > until:
                break
            self.now = t  # the only clock anything reads
            fn()
        self.end_time = max(self.now, until if not self.stop else self.now) + self.skew


def payload(sim):
    return {'x': Fraction(sim.choose('px', 3)), 'y': Fraction(sim.choose('py', 3)), 'ok': sim.coin('pok')}


def simulate(sim, pdesc, cfg, on_deliver, extra_topic=None, topics=TOPICS):
    """Build the system for this property and run it."""
    scope, act, term = pdesc['scope']
    pk, trig, beh, bound = pdesc['pattern']
    used = list(dict.fromkeys(topics_of(act) + topics_of(term) + topics_of(trig) + topics_of(beh)))
    if extra_topic and extra_topic not in used:
        used.append(extra_topic)
    extra = [t for t in topics if t not in used]
    # swarm: which fault kinds are enabled in this run, and how hard
    fc = {
        'drop': sim.pick('f_drop', (0, 0, 0.1, 0.3)),
        'dup': sim.pick('f_dup', (0, 0, 0.1, 0.3)),
        'spike': sim.pick('f_spike', (0, 0, 0.15)),
        'jitter': sim.pick('f_jit', (0, 3, 40, 200)),
        'max_events': cfg['max_events'],
    }
    bus = Bus(sim, fc, on_deliver)
    # the bound in milliseconds, exactly as written (33.3 ms is 333/10); reactions are timed around it
    b = Fraction(str(bound)) if bound is not None else Fraction(sim.pick('pseudo_bound', (1, 50, 100, 1000)))
    horizon = sim.pick('horizon', (400, 2000, 6000, 20000))
    busy = sim.coin('busy', 0.3)  # a share of the runs has every publisher talk a lot
    # periodic / bursty publishers
    for tp in used + extra[:sim.choose('nextra', 3)]:
        mode = sim.weighted('pubmode', [(4, 'periodic'), (2, 'bursty'), (1.5, 'rare'), (0.7, 'silent')])
        if mode == 'silent':
            continue
        period = {'periodic': sim.pick('per', (7, 40, 130, 500)), 'bursty': sim.pick('perb', (1, 2, 5)), 'rare': sim.pick('perr', (800, 2500))}[mode]
        count = {'periodic': sim.randint('cntp', 3, 16), 'bursty': sim.randint('cntb', 2, 9), 'rare': sim.randint('cntr', 1, 3)}[mode]
        if busy:
            count *= 3
        start = sim.randint('start', 0, max(1, horizon // 6))

        def tick(tp=tp, period=period, left=[count]):
            if left[0] <= 0:
                return
            left[0] -= 1
            bus.publish(tp, payload(sim))
            bus.after(period + sim.randint('pj', 0, max(0, period // 4)), tick)
        bus.after(start, tick)
    # reactive publishers: answer an observed trigger around the deadline
    react_src = topics_of(trig) if trig is not None else topics_of(act)
    react_dst = topics_of(beh)
    if pk == 'requirement':
        react_src, react_dst = topics_of(trig), topics_of(beh)  # a happens, then b within/after the bound
    if react_src and react_dst and sim.coin('reactive', 0.75):
        tenth = Fraction(1, 10)
        delays = (Fraction(0), max(Fraction(0), b - 1), b, b + 1, 3 * b, max(Fraction(0), b - tenth), b + tenth,
                  Fraction(int(b)), Fraction(int(b) + 1), Fraction(round(b)))
        inner = bus.on_deliver

        def deliver_hook(bs, msg):
            inner(bs, msg)
            if msg[1] in react_src and sim.coin('react', 0.6):
                d = sim.pick('rdelay', delays)
                dst = sim.pick('rdst', react_dst)
                pl = payload(sim)
                if sim.coin('copy', 0.5):
                    pl['x'] = msg[2]['x']
                    pl['y'] = msg[2]['y']
                bs.count('reactive_responses')
                bs.count('deadline_offset_%s' % ('at' if d == b else 'just_before' if b - 1 <= d < b else 'just_after' if b < d <= b + 1 else 'other'))
                # the reaction is measured from the recorder's arrival stamp: exact delivery
                bs.after(d, lambda: bs.publish(dst, pl, exact=sim.coin('exact', 0.7)))
        bus.on_deliver = deliver_hook
    # scheduled environment faults
    for _ in range(sim.choose('nstall', 3)):
        at, dur = sim.randint('stall_at', 0, horizon), sim.pick('stall_dur', (2, 30, 150))
        bus.after(at, lambda dur=dur: bus.start_stall(dur))
    for _ in range(sim.choose('njump', 3)):
        at, d = sim.randint('jump_at', 0, horizon), sim.pick('jump_d', (1, 60, 1500))
        bus.after(at, lambda d=d: bus.clock_jump(d))
    for _ in range(sim.choose('npart', 3)):
        if used:
            at, tp, dur = sim.randint('part_at', 0, horizon), sim.pick('part_tp', used), sim.pick('part_dur', (20, 300, 3000))
            bus.after(at, lambda tp=tp, dur=dur: bus.partition(tp, dur))
    bus.run(horizon)
    return bus


###############################################################################
# Judging
###############################################################################


class Unparseable(Exception):
    """The generated text is not accepted by the parser (a workload matter, not judged)."""


class Raised(Exception):
    """canonical_form raised something other than its documented refusal."""


class Refused(Exception):
    """canonical_form raised for this property (C11/C14 matter): counted by class, not judged."""


def renest_left(event):
    """The grammar only writes right-nested disjunctions; through the API the same alternatives can
    be nested to the left. Same meaning, different tree shape for simple_events() to walk."""
    if event is None:
        return None
    alts = list(event.simple_events())
    if len(alts) < 3:
        return event
    from hpl.ast.events import HplEventDisjunction
    acc = HplEventDisjunction(alts[0], alts[1])
    for a in alts[2:]:
        acc = HplEventDisjunction(acc, a)
    return acc


def rebuild_through_api(ast):
    scope = ast.scope
    if scope.terminator is not None:
        scope = scope.but(terminator=renest_left(scope.terminator))
    pat = ast.pattern
    kw = {'behaviour': renest_left(pat.behaviour)}
    if pat.trigger is not None:
        kw['trigger'] = renest_left(pat.trigger)
    pat = pat.but(**kw)
    return ast.but(scope=scope, pattern=pat)


def edit_through_api(ast, edit):
    """Copy-with-changes on a disjunction: the first alternative of the event in the split position
    (or of the other event) is replaced through `disjunction.but(event1=...)` by another simple
    event. edit = {'topic': str, 'pred': text or None, 'where': 'split' | 'other'}"""
    from hpl.ast.events import HplSimpleEvent
    pat = ast.pattern
    split_field = 'trigger' if pat.is_response else 'behaviour'
    other_field = 'behaviour' if split_field == 'trigger' else 'trigger'
    field = split_field if edit['where'] == 'split' else other_field
    ev = getattr(pat, field)
    if ev is None or not ev.is_event_disjunction:
        field = split_field
        ev = getattr(pat, field)
    if ev is None or not ev.is_event_disjunction:
        return ast
    pred = build.parser('predicate').parse(edit['pred']) if edit.get('pred') else None
    slot = 'event1' if ev.event1.is_simple_event else 'event2'
    # keep the replaced alternative's alias: a name bound by only some alternatives would leave
    # later references to it unbound on some paths (no documented meaning)
    new_alt = HplSimpleEvent.publish(edit['topic'], predicate=pred, alias=getattr(ev, slot).alias)
    ev2 = ev.but(**{slot: new_alt})
    return ast.but(pattern=pat.but(**{field: ev2}))


RECALL_OPS = ('consume', 'clear', 'drop_first', 'accumulate', 'overwrite')


def scribble_result(parts, op, foreign):
    """What callers do with a list they were handed: work through it, empty it, add to it."""
    if op == 'consume':
        while parts:
            parts.pop()
    elif op == 'clear':
        parts.clear()
    elif op == 'drop_first':
        del parts[:1]
    elif op == 'accumulate':
        parts += [foreign]
    elif op == 'overwrite':
        if parts:
            parts[0] = foreign
        else:
            parts.append(foreign)


class Judge:
    """Holds P and its canonical form as monitor objects; checks a prefix."""

    def __init__(self, text, renest=False, edit=None):
        from hpl.rewrite import canonical_form
        try:
            self.ast = build.parser('property').parse(text)
            if renest is True:
                self.ast = rebuild_through_api(self.ast)
            elif renest == 'deepcopy':
                self.ast = copy.deepcopy(self.ast)
            elif renest == 'pickle':
                self.ast = pickle.loads(pickle.dumps(self.ast))
            if edit and edit.get('topic'):
                self.ast = edit_through_api(self.ast, edit)
            if edit and edit.get('min_time'):
                # the lower end of the time window can only be given through the API
                pat = self.ast.pattern
                if pat.max_time >= edit['min_time']:
                    self.ast = self.ast.but(pattern=pat.but(min_time=edit['min_time']))
            foreign = build.parser('property').parse(edit['recall']['foreign']) if edit and edit.get('recall') else None
        except Exception as e:
            raise Unparseable(type(e).__name__)
        try:
            with core.warnings_filter(edit.get('warnings') if edit else None):
                self.parts_ast = canonical_form(self.ast)
                if edit and edit.get('recall'):
                    # an earlier caller did what it liked with the list it was given (it owns it); the
                    # canonical form that counts is the one a later call on the same object returns
                    scribble_result(self.parts_ast, edit['recall']['op'], foreign)
                    self.parts_ast = canonical_form(self.ast)
        except Exception as e:
            from hpl.errors import HplSanityError
            if isinstance(e, HplSanityError):
                raise Refused(type(e).__name__)  # the library declines the property (C11 / C14 matter)
            # anything else: this property has no canonical form at all
            raise Raised('%s: %s' % (type(e).__name__, str(e)[:200]))
        self.P = monitor.Prop(self.ast)
        self.parts = [monitor.Prop(p) for p in self.parts_ast]
        # an empty canonical form is a conjunction of nothing: satisfied by every trace
        self.split = len(self.parts) != 1 or self.parts_ast[0] is not self.ast

    def check(self, trace):
        """None or (reading, sat(P), [sat(Pi)])"""
        for rd in monitor.READINGS:
            sp = monitor.satisfies(self.P, trace, rd)
            sq = [monitor.satisfies(q, trace, rd) for q in self.parts]
            if sp != all(sq):
                return (rd, sp, sq)
        return None


def _t_json(t):
    return int(t) if t == int(t) else str(Fraction(t))


def trace_to_json(trace):
    """Times are milliseconds; a time that is not a whole millisecond is written as a fraction."""
    return [[_t_json(t), tp, {'x': int(pl['x']), 'y': int(pl['y']), 'ok': pl['ok']}] for t, tp, pl in trace]


def trace_from_json(doc):
    return [(Fraction(t) if isinstance(t, str) else t, tp, {'x': Fraction(pl['x']), 'y': Fraction(pl['y']), 'ok': pl['ok']}) for t, tp, pl in doc]


def run_one(seed, cfg, stats):
    """One simulated run. Returns (violation or None, info)."""
    sim = core.Sim(seed)

    def count(k, n=1):
        stats[k] = stats.get(k, 0) + n

    topics = ROS8 if sim.coin('rostopics', 0.3) else TOPICS
    if sim.coin('wide', 0.012):
        topics = WIDE40
        count('wide_properties')
    pdesc = PropGen12(sim, topics).prop()
    text = gen.render_property(pdesc)
    shape = (pdesc['scope'][0], pdesc['pattern'][0], len(topics_of(pdesc['pattern'][1])), len(topics_of(pdesc['pattern'][2])),
             len(topics_of(pdesc['scope'][2])), pdesc['pattern'][3] is not None)
    # how the property object was obtained: parsed, re-nested through the API, deep-copied, unpickled
    renest = sim.coin('renest', 0.25)
    if not renest and sim.coin('obtained', 0.12):
        renest = sim.pick('obtained_how', ('deepcopy', 'pickle'))
    count('obtained_%s' % ('parsed' if renest is False else 'api' if renest is True else renest))
    edit = None
    if sim.coin('edit', 0.2):
        spare = [t for t in topics if t not in topics_of(pdesc['scope'][1]) + topics_of(pdesc['scope'][2]) + topics_of(pdesc['pattern'][1]) + topics_of(pdesc['pattern'][2])]
        if spare:
            edit = {'topic': sim.pick('edit_topic', spare), 'pred': sim.pick('edit_pred', (None, '{ x > 0 }', '{ ok }', '{ y in {0, 1} }')),
                    'where': sim.pick('edit_where', ('split', 'split', 'other'))}
    if sim.coin('recall', 0.12):
        # call history on one property object: canonical_form, the caller edits ITS list, canonical_form again
        edit = dict(edit or {})
        edit['recall'] = {'op': sim.pick('recall_op', RECALL_OPS), 'foreign': 'globally: no %s' % sim.pick('recall_topic', topics)}
        count('recall_' + edit['recall']['op'])
    aux = core.Sim(core.derive(seed, 'c12-aux'))  # a stream of its own: nothing drawn here moves anything else
    if aux.coin('min_time', 0.06):
        edit = dict(edit or {})
        edit['min_time'] = aux.pick('min_time_value', (0.001, 0.05, 0.5, 1.0))
        count('api_min_time')
    if sim.coin('warnings_error', 0.15):
        edit = dict(edit or {})
        edit['warnings'] = 'error'  # python -W error / PYTHONWARNINGS=error around the library call
        count('warnings_filter_error')
    try:
        judge = Judge(text, renest, edit)
    except Raised as e:
        count('runs')
        return ({'class': 'raises', 'detail': 'canonical_form raised %s' % e, 'text': text, 'renest': renest, 'edit': edit, 'trace': [], 'bus_log': [], 'reading': None},
                {'text': text, 'shape': shape, 'digest': sim.digest(), 'refused': True})
    except Unparseable as e:
        count('generated_text_rejected_by_parser')
        return None, {'text': text, 'shape': shape, 'digest': sim.digest(), 'refused': True}
    except Refused as e:
        # canonical_form raised (C11/C14 matter): counted by exception class, not judged. Anything
        # that goes wrong in the judge itself propagates as a harness error.
        count('refused')
        count('refused_' + str(e))
        return None, {'text': text, 'shape': shape, 'digest': sim.digest(), 'refused': True}
    count('properties')
    if judge.split:
        count('properties_split')
    viol = [None]
    verdicts = set()

    def on_deliver(bus, msg):
        if viol[0] is not None:
            return
        count('prefixes_checked')
        r = judge.check(bus.trace)
        if r is not None:
            viol[0] = (r, len(bus.trace))
            bus.stop = True

    bus = simulate(sim, pdesc, cfg, on_deliver, extra_topic=edit.get('topic') if edit else None, topics=topics)
    if viol[0] is None:
        r = judge.check(bus.trace)  # at shutdown
        count('prefixes_checked')
        if r is not None:
            viol[0] = (r, len(bus.trace))
    for rd in monitor.READINGS:
        verdicts.add((rd, monitor.satisfies(judge.P, bus.trace, rd)))
    for k, v in bus.stats.items():
        count(k, v)
    count('runs')
    count('simulated_ms', int(bus.now))
    info = {'text': text, 'shape': shape, 'digest': sim.digest(), 'trace_len': len(bus.trace), 'verdicts': verdicts,
            'faults': {k: v for k, v in bus.stats.items() if k.startswith('fault_')}, 'split': judge.split}
    if viol[0] is not None:
        (rd, sp, sq), n = viol[0]
        v = {'class': 'not-equivalent', 'detail': 'reading %s: property %s, canonical form %s (%d parts) on a history of %d messages' % (
            rd, 'satisfied' if sp else 'violated', ['satisfied' if x else 'violated' for x in sq], len(sq), n),
            'text': text, 'renest': renest, 'edit': edit, 'trace': trace_to_json(bus.trace[:n]), 'bus_log': [[_t_json(e[0])] + list(e[1:]) for e in bus.log][:60], 'reading': rd}
        return v, info
    return None, info


def judge_trace(text, trace, renest=False, edit=None):
    """Replay path: literal property text + literal history; no PRNG."""
    judge = Judge(text, renest, edit)
    for n in range(1, len(trace) + 1):
        r = judge.check(trace[:n])
        if r is not None:
            return r, n
    r = judge.check(trace)
    if r is not None:
        return r, len(trace)
    return None, len(trace)


###############################################################################
# Worker / minimise / replay / main
###############################################################################


def worker(job):
    cfg = job['cfg']
    stats = {}
    found = []
    digests = []
    samples = []
    shapes = {}
    fault_sets = set()
    t0 = time.monotonic()
    for idx in job['indices']:
        if time.monotonic() > job['deadline']:  # one deadline for the whole batch (CLOCK_MONOTONIC is system-wide)
            stats['runs_skipped_for_time'] = stats.get('runs_skipped_for_time', 0) + 1
            continue
        seed = core.derive(job['master'], PROP, idx)
        v, info = run_one(seed, cfg, stats)
        digests.append((idx, info['digest'], core.derive(repr(sorted(info.get('verdicts', ()))), info.get('trace_len'))))
        if not info.get('refused'):
            sh = shapes.setdefault(info['shape'], set())
            for rd, verdict in info['verdicts']:
                sh.add(verdict)
            fault_sets.add(tuple(sorted(info['faults'])))
            if len(samples) < 1 and info['split'] and info['trace_len'] > 3:
                samples.append({'run_index': idx, 'seed': seed, 'property': info['text'], 'history_length': info['trace_len'], 'faults_fired': info['faults']})
        if v is not None:
            v['run_index'] = idx
            v['seed'] = seed
            found.append(v)
            if len(found) >= 10:
                break
    return {'stats': stats, 'violations': found, 'digests': digests, 'samples': samples,
            'shapes': [(list(k), sorted(v)) for k, v in shapes.items()], 'fault_sets': sorted(fault_sets)}


def minimise(v):
    if v['class'] == 'raises':
        return v
    text = v['text']
    trace = trace_from_json(v['trace'])

    def fails(sub):
        try:
            r, _n = judge_trace(text, sub, v.get('renest', False), v.get('edit'))
        except Exception:
            return False
        return r is not None

    small = core.ddmin(trace, fails, budget=200)
    if fails(small):
        r, n = judge_trace(text, small, v.get('renest', False), v.get('edit'))
        out = dict(v)
        out['trace'] = trace_to_json(small[:n])
        out['detail'] = 'reading %s: property %s, canonical form %s on a history of %d messages (minimised from %d)' % (
            r[0], 'satisfied' if r[1] else 'violated', ['satisfied' if x else 'violated' for x in r[2]], n, len(trace))
        return out
    return v


def make_replay(v):
    return {'property': PROP, 'class': v['class'], 'detail': v['detail'], 'text': v['text'], 'renest': v.get('renest', False), 'edit': v.get('edit'), 'trace': v['trace'],
            'bus_log_of_the_original_run': v.get('bus_log'), 'seed': v.get('seed'), 'pythonhashseed': os.environ.get('PYTHONHASHSEED'),
            'how_to_replay': '/venv/bin/python /verif/check.py C12 --replay <this file>'}


def replay(doc):
    if doc.get('class') == 'raises':
        try:
            Judge(doc['text'], doc.get('renest', False), doc.get('edit'))
        except Raised as e:
            return {'class': 'raises', 'detail': 'canonical_form raised %s' % e}
        except (Refused, Unparseable):
            return None
        return None
    r, n = judge_trace(doc['text'], trace_from_json(doc['trace']), doc.get('renest', False), doc.get('edit'))
    if r is None:
        return None
    return {'class': 'not-equivalent', 'detail': 'reading %s: property %s, canonical form %s after %d messages' % (
        r[0], 'satisfied' if r[1] else 'violated', ['satisfied' if x else 'violated' for x in r[2]], n)}


def main(argv):
    ap = argparse.ArgumentParser(prog='check.py C12')
    ap.add_argument('--tier', default=core.tier_from_env())
    ap.add_argument('--replay')
    ap.add_argument('--runs', type=int)
    ap.add_argument('--offset', type=int, default=0)
    ap.add_argument('--digests', action='store_true')
    args = ap.parse_args(argv)
    master = core.master_seed()
    if args.replay:
        doc = core.load_replay(args.replay)
        v = replay(doc)
        if v is None:
            print('REPLAY-RESULT class=none (no violation reproduced)')
            return core.EXIT_OK
        print('REPLAY-RESULT class=%s' % v['class'])
        print('  ' + v['detail'])
        print('VIOLATION property=%s replay=%s' % (PROP, args.replay))
        return core.EXIT_VIOLATION
    t0 = time.monotonic()
    cfg = dict(TIERS[args.tier])
    if args.runs is not None:
        cfg['runs'] = args.runs
    scale = float(os.environ.get('HPLSIM_SCALE', '1'))
    nruns = max(16, int(cfg['runs'] * scale))
    nproc = int(os.environ.get('HPLSIM_NPROC', '0')) or min(16, os.cpu_count() or 1)
    indices = list(range(args.offset, args.offset + nruns))
    jobs = [{'cfg': cfg, 'indices': ch, 'master': master, 'deadline': time.monotonic() + cfg['wall']} for ch in core.chunk(indices, nproc * 4)]
    results = core.run_pool(worker, jobs, nproc=nproc, wall_cap=cfg['wall'] + 240)
    stats, found, samples, digests = {}, [], [], []
    shapes, fault_sets = {}, set()
    for r in results:
        core.merge_counts(stats, r['stats'])
        found.extend(r['violations'])
        samples.extend(r['samples'])
        digests.extend(r['digests'])
        for k, vs in r['shapes']:
            shapes.setdefault(tuple(k), set()).update(vs)
        fault_sets.update(tuple(f) for f in r['fault_sets'])
    if args.digests:
        for idx, d, e in sorted(digests):
            print('DIGEST %d %s %x' % (idx, d, e))
    known = core.load_known_findings(PROP)
    new, known_hits, harness_errors = [], [], []
    seen = set()
    limit = int(os.environ.get('HPLSIM_REPORT_MAX', '3'))
    found.sort(key=lambda v: (len(v['trace']), len(v['text'])))
    for v in found[:limit * 3]:
        mv = minimise(v)
        sig = (mv['text'],)
        if sig in seen or len(new) >= limit:
            continue
        seen.add(sig)
        path = core.write_replay(PROP, '%s_%d' % (mv['class'].replace('-', '_'), v['run_index']), make_replay(mv))
        hit = next((k for k in known if k.get('text') == mv['text']), None)
        if hit is not None:
            known_hits.append(hit.get('what', mv['text']))
            continue
        if not os.environ.get('HPLSIM_NO_VERIFY'):
            ok, out = core.verify_replay_fresh(PROP, path, mv['class'])
            if not ok:
                harness_errors.append('violation did not replay in a fresh interpreter (%s): %s' % (path, out[-300:]))
                continue
        new.append((path, '%s | %s' % (mv['text'].replace('\n', ' '), mv['detail'])))
    # the same check, other run indices, under other interpreter configurations (python -O)
    slices = [] if args.digests else core.run_config_slices(PROP, args.tier, max(8, cfg['runs'] // 10), new, known_hits, harness_errors)
    wall = time.monotonic() - t0
    runs = stats.get('runs', 0)
    both = sum(1 for v in shapes.values() if len(v) == 2)
    coverage = {
        'interpreter_configuration_slices': slices,
        'evaluations': int(stats.get('prefixes_checked', 0)),
        'distinct_nontrivial': len(shapes),
        'rule': 'cases = (property, history prefix) pairs on which the monitor compared the property with its canonical form under both re-activation readings; '
                'distinct_nontrivial = distinct property shapes (scope kind, pattern kind, trigger width, behaviour width, terminator width, bounded?) reached with a non-refused property',
        'samples': samples[:3],
        'runs': runs,
        'runs_per_hour': int(runs / wall * 3600) if wall > 0 else 0,
        'seeds': 'run i uses seed H(VERIF_SEED, "C12", i), i in [%d, %d)' % (args.offset, args.offset + runs),
        'simulated_time_s': round(stats.get('simulated_ms', 0) / 1000.0, 1),
        'messages_published': stats.get('published', 0),
        'messages_delivered': stats.get('delivered', 0),
        'properties_actually_split': stats.get('properties_split', 0),
        'properties_refused_by_canonical_form': stats.get('refused', 0),
        'refusals_by_exception_class': {k[8:]: v for k, v in sorted(stats.items()) if k.startswith('refused_')},
        'generated_texts_rejected_by_parser': stats.get('generated_text_rejected_by_parser', 0),
        'shapes_with_both_verdicts_observed': both,
        'fault_kinds_fired': {k[6:]: v for k, v in sorted(stats.items()) if k.startswith('fault_')},
        'properties_given_a_min_time_through_the_api': stats.get('api_min_time', 0),
        'properties_with_27_to_34_alternatives_in_one_event': stats.get('wide_properties', 0),
        'property_object_obtained_by': {k[9:]: v for k, v in sorted(stats.items()) if k.startswith('obtained_')},
        'caller_edits_of_an_earlier_result_before_a_second_call': {k[7:]: v for k, v in sorted(stats.items()) if k.startswith('recall_')},
        'distinct_fault_kind_sets_per_run': len(fault_sets),
        'reactive_responses': stats.get('reactive_responses', 0),
        'responses_relative_to_deadline': {k[16:]: v for k, v in sorted(stats.items()) if k.startswith('deadline_offset_')},
        'deliveries_with_equal_timestamps': stats.get('equal_timestamps', 0),
        'runs_skipped_for_time': stats.get('runs_skipped_for_time', 0),
        'pythonhashseed': os.environ.get('PYTHONHASHSEED'),
        'real_vs_stub': {'real': ['hpl.parser', 'hpl.rewrite.canonical_form', 'AST accessors read by the monitor'],
                         'stub_or_model': ['publishers, transport, recorder, virtual clock (harness)', 'reference monitor (oracle, same monitor judges both sides)']},
    }
    assumptions = [
        'finite-trace semantics of scopes and patterns as written in hplsim/monitor.py from docs/lang.md; the relation is metamorphic (one monitor judges both sides)',
        'aliases are bound on simple events only; properties that canonical_form refuses are counted, not judged',
        'time bounds compared exactly as stored (fractions of a millisecond included)',
        'min_time (API only, undocumented) is read as the lower end of the window [min_time, max_time]; the reading matters only in so far as a copy that loses the field must not pass for the original',
    ]
    core.write_evidence(PROP, args.tier, master, 'exploration', coverage, wall, len(new), assumptions)
    print('C12: %d runs, %d prefixes checked, %.0f simulated seconds, %d messages delivered, %.1fs' % (
        runs, stats.get('prefixes_checked', 0), stats.get('simulated_ms', 0) / 1000.0, stats.get('delivered', 0), wall))
    return core.finish(PROP, new, known_hits, harness_errors)
