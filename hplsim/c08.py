"""C08 - simplify preserves meaning, for every iteration order the run-time may pick (DESIGN 4).

A run = one generated input (term) x a list of order policies x a list of valuations.
The simulator owns the hash-order choice inside hpl.rewrite through SimSet; the oracle is the
reference evaluator under every admissible reading.
"""

import argparse
import copy
import os
import signal
import subprocess
import sys
import time

from hplsim import build, core, gen, refeval, seams

PROP = 'C08'

TIERS = {
    # runs, shuffles per input, valuations per input, wall cap of the batch (s)
    'quick': dict(runs=40000, shuffles=2, valuations=20, wall=300, hashseed_slices=1),
    'thorough': dict(runs=200000, shuffles=6, valuations=44, wall=2400, hashseed_slices=3),
}

###############################################################################
# Scenario generation
###############################################################################


def gen_scenario(seed, cfg):
    sim = core.Sim(seed)
    kind = sim.weighted('kind', [(4, 'pred'), (3, 'boolexpr'), (3, 'numexpr')])
    depth = sim.weighted('depth', [(2, 2), (3, 3), (3, 4), (2, 5)])
    eg = gen.ExprGen(sim, max_depth=depth, allow_alias=sim.coin('aliases', 0.5),
                     allow_quant=sim.coin('quants', 0.5), allow_api=sim.coin('api', 0.3),
                     trig_bias=sim.pick('bias', (0.15, 0.35, 0.6)))
    if sim.coin('namepool', 0.4):
        eg.unique_vars = False
        eg.free_vars = True
    if kind == 'numexpr':
        term = eg.num(0)
    else:
        term = eg.boolean(0)
        if kind == 'pred' and term[0] == 'lit':
            kind = 'boolexpr'
    term = gen.sanitize_powers(term)
    policies = [{'kind': 'identity'}, {'kind': 'reverse'}]
    policies.append({'kind': 'rotate', 'k': sim.randint('rot', 1, 3)})
    for _ in range(cfg['shuffles']):
        policies.append({'kind': 'shuffle', 'seed': sim.subseed('shuf')})
    vals = []
    specials = (0, 1, -1, 2)
    for i in range(cfg['valuations']):
        env = {'this': gen.make_message(sim, 'this'), 'A': gen.make_message(sim, 'A'), 'Msg_1': gen.make_message(sim, 'Msg_1'),
               'free': {v: sim.pick('freeval', gen.NUM_GRID) for v in gen.FREE_VARS}}
        if i < len(specials):
            from fractions import Fraction
            for key, m in env.items():
                if key == 'free':
                    for v in m:
                        m[v] = Fraction(specials[i])
                    continue
                for f in gen.NUM_FIELDS:
                    m[f] = Fraction(specials[i])
                m['m']['x'] = Fraction(specials[i])
        vals.append(env)
    # python -W error / PYTHONWARNINGS=error around the library call, in some runs
    wmode = 'error' if sim.coin('warnings_error', 0.15) else 'default'
    # (drawn last, so that every earlier choice of every scenario stays as it was)
    if kind != 'numexpr' and sim.coin('dual_quantifiers', 0.025):
        # De Morgan partners side by side: Q x in D: p  and  Q' x in D': not p - the same variable,
        # the opposite quantifier, the negated body, the same OR ANOTHER domain
        eg.force_quantifier = sim.pick('dualq', ('forall', 'exists'))
        try:
            q1 = eg.quant(1)
        finally:
            eg.force_quantifier = None
        other = 'exists' if q1[1] == 'forall' else 'forall'
        dom2 = q1[3] if sim.coin('dual_same_domain', 0.4) else eg.num_compound(1)
        body1, body2 = (q1[4], ('un', 'not', q1[4])) if sim.coin('dual_neg_second', 0.6) else (('un', 'not', q1[4]), q1[4])
        qa, qb = ('quant', q1[1], q1[2], q1[3], body1), ('quant', other, q1[2], dom2, body2)
        if sim.coin('dual_swap', 0.5):
            qa, qb = qb, qa
        term = gen.sanitize_powers(('bin', sim.pick('dual_op', ('and', 'or', 'iff', 'implies', '=', '!=')), qa, qb))
        if kind == 'pred' and term[0] == 'lit':
            kind = 'boolexpr'
    # (drawn last again, round 16) a power with a special literal on ONE side and a reference on the
    # other: 0 ** x, 1 ** x, -1 ** x, x ** 0 ... - shortcuts that hold for a literal partner are
    # tempting to extend to a non-literal one, where the valuation x = 0 (always in the grid) decides
    if sim.coin('special_power', 0.012):
        lit = ('lit', 'num', sim.pick('sp_lit', ('0', '1', '2', '0', '0.5')))
        if sim.coin('sp_neg', 0.2):
            lit = ('un', '-', lit)
        r = eg.ref(gen.NUM_FIELDS)
        pw = ('bin', '**', lit, r) if sim.coin('sp_base', 0.7) else ('bin', '**', r, lit)
        if sim.coin('sp_wrapped', 0.5):
            pw = ('bin', sim.pick('sp_wrap_op', ('+', '*', '-')), pw, eg.ref(gen.NUM_FIELDS))
        if kind == 'numexpr':
            term = pw
        else:
            term = ('bin', sim.pick('sp_cmp', ('=', '!=', '<', '<=', '>', '>=')), pw,
                    ('lit', 'num', sim.pick('sp_rhs', ('0', '1', '2'))))
        term = gen.sanitize_powers(term)
    return {'seed': seed, 'kind': kind, 'term': term, 'policies': policies, 'valuations': vals, 'warnings': wmode,
            'digest_gen': sim.digest()}


###############################################################################
# Execution
###############################################################################


def build_input(kind, term):
    if kind == 'pred':
        return build.build_pred(term)
    return build.build_expr(term)


def root_expr(kind, obj):
    return obj.condition if kind == 'pred' else obj


def const_subexprs_undefined(expr):
    """Does the input contain a reference-free subexpression that has no value?"""
    env = refeval.Env({}, {})
    rd = refeval.ALL_READINGS[0]
    stack = [expr]
    while stack:
        node = stack.pop()
        if _reference_free(node) and type(node).__name__ not in ('HplLiteral',):
            oc = refeval.outcome(node, env, rd)
            if oc[0] != 'val':
                return True
            v = oc[1]
            if isinstance(v, float) and abs(v) > 1e15:
                return True
        stack.extend(node.children())
    return False


def _reference_free(node):
    for n in node.iterate():
        c = type(n).__name__
        if c in ('HplThisMessage', 'HplVarReference'):
            return False
    return True


def identically_zero_divisor(expr, valuations):
    """Is there a division whose divisor is zero under every valuation where it has a value
    (under at least one admissible reading of set cardinality)?"""
    for rd in (refeval.ALL_READINGS[0],):
        for node in expr.iterate():
            if type(node).__name__ == 'HplBinaryOperator' and node.operator.token == '/':
                allzero = True
                for env in valuations:
                    oc = refeval.outcome(node.operand2, refeval.Env(env['this'], dict(env.get('free') or {}, A=env['A'], Msg_1=env.get('Msg_1', env['A']))), rd)
                    if oc[0] == 'val':
                        try:
                            if not refeval.num_eq(oc[1], 0):
                                allzero = False
                                break
                        except Exception:
                            allzero = False
                            break
                if allzero:
                    return True
    return False


def never_defined(expr, valuations):
    """No valuation of the grid gives the input a value (and at least one makes it plainly undefined)."""
    rd = refeval.ALL_READINGS[0]
    undef = 0
    for env in valuations:
        oc = refeval.outcome(expr, refeval.Env(env['this'], dict(env.get('free') or {}, A=env['A'], Msg_1=env.get('Msg_1', env['A']))), rd)
        if oc[0] == 'val':
            return False
        if oc[0] == refeval.UNDEF:
            undef += 1
    return undef > 0


def judge_valuation(orig, simp, envd):
    """Returns None (no violation / not judged) or ('value'|'undef', detail). Also a status tag."""
    env = refeval.Env(envd['this'], dict(envd.get('free') or {}, A=envd['A'], Msg_1=envd.get('Msg_1', envd['A'])))
    detail = None
    for rd in refeval.ALL_READINGS:
        o = refeval.outcome(orig, env, rd)
        if o[0] in (refeval.UNSPEC, refeval.FRAGILE):
            return None, 'skipped_' + o[0].lower()
        if o[0] == refeval.UNDEF:
            return None, 'orig_undef'
        s = refeval.outcome(simp, env, rd)
        if s[0] in (refeval.UNSPEC, refeval.FRAGILE):
            return None, 'skipped_' + s[0].lower()
        if s[0] == refeval.UNDEF:
            detail = detail or ('undef', 'original=%r simplified undefined (%s) [%r]' % (o[1], s[1], rd))
            continue
        try:
            same = refeval.same_value(o[1], s[1])
        except refeval.Fragile:
            return None, 'skipped_fragile'
        except refeval.Unspecified:
            return None, 'skipped_unspec'
        if same:
            return None, 'agree'
        detail = detail or ('value', 'original=%r simplified=%r [%r]' % (o[1], s[1], rd))
    return detail, 'violation'


def exact_mismatch(want, simp_expr):
    """The simplified form of an exactly determined constant, if it is a literal, must be that constant."""
    if type(simp_expr).__name__ != 'HplLiteral':
        return None  # not folded: the valuations below judge it
    got = simp_expr.value
    if isinstance(got, str) or isinstance(got, bool) != isinstance(want, bool):
        return None  # a kind change is the tolerant oracle's (and the type check's) business
    if got != want:
        return 'the input denotes exactly %r, the simplified form is the literal %r' % (want, got)
    return None


def const_subterms(term):
    """Maximal reference-free operator / call subterms of a term that does contain references."""
    out = []
    stack = [term]
    while stack:
        t = stack.pop()
        if t[0] in ('bin', 'un', 'call') and not gen.has_reference(t) and not gen.contains(t, 'callv'):
            out.append(t)
            continue
        stack.extend(c for _s, c in reversed(gen.children_of(t)))
    return out


def judge_const_subterm(sub, count):
    """A constant subexpression is an input in its own right."""
    from hpl.rewrite import simplify
    try:
        ex = refeval.exact_constant(build.build_expr(sub))
        if ex is None:
            return None
        count('exact_constant_subterms')
        out = simplify(build.build_expr(sub))
    except RecursionError:
        return None
    except Exception:
        return None  # raising on this subterm shows in the whole input too, where it is classified
    bad = exact_mismatch(ex[1], out)
    return ('subexpression %s: ' % out.__class__.__name__ + bad + ' [%s]' % gen.render(sub)) if bad else None


def revalidate(out):
    """Every node of the output must survive its own constructor's validators again."""
    import attrs
    priv = copy.deepcopy(out)
    for node in priv.iterate():
        attrs.evolve(node)


def execute(sc, stats=None, only_policy=None, only_vals=None, real_set=False, trace=None):
    """Run one scenario. Returns list of violation dicts (possibly empty)."""
    from hpl.rewrite import simplify
    from hpl.ast.predicates import HplPredicate, HplPredicateExpression
    from hpl.ast.expressions import HplExpression, HplLiteral
    stats = stats if stats is not None else {}
    kind, term = sc['kind'], sc['term']
    violations = []

    def count(k, n=1):
        stats[k] = stats.get(k, 0) + n

    try:
        probe = build_input(kind, term)
    except Exception as e:  # the generator produced something the parser refuses: not judged
        count('inputs_rejected')
        stats.setdefault('reject_samples', [])
        if len(stats['reject_samples']) < 3:
            stats['reject_samples'].append('%s: %s' % (type(e).__name__, gen.render(term) if not gen.contains(term, 'callv') else repr(term)))
        return violations
    count('inputs')
    count('warnings_filter_' + str(sc.get('warnings', 'default')))
    in_text = str(probe)
    in_type = None if kind == 'pred' else probe.data_type
    # the reference tree: built once, never handed to the library, only read by the evaluators
    ref_expr = root_expr(kind, build_input(kind, term))
    ref_exact = refeval.exact_constant(ref_expr)
    valuations = sc['valuations'] if only_vals is None else [sc['valuations'][i] for i in only_vals]
    policies = list(enumerate(sc['policies']))
    if only_policy is not None:
        policies = [policies[only_policy]]
    if real_set:
        policies = [(0, {'kind': 'real'})]
    changed_any = False
    for pi, pdoc in policies:
        inp = build_input(kind, term)  # a fresh tree per order: nothing carries over
        orig_expr = root_expr(kind, inp)
        script = sc.get('perm_script', {}).get(str(pi)) if sc.get('perm_script') else None
        policy = None
        exc = None
        try:
            with core.warnings_filter(sc.get('warnings')):
                if real_set:
                    out = simplify(inp)
                else:
                    policy = seams.OrderPolicy.from_json(pdoc, script=script)
                    with seams.simset_installed(policy):
                        out = simplify(inp)
        except RecursionError:
            count('recursion_skipped')
            continue
        except Exception as e:
            exc = e
        count('simplify_calls')
        if trace is not None:
            trace.append((pi, type(exc).__name__ if exc is not None else str(out), [p for _n, p in policy.observed] if policy is not None else None))
        if policy is not None:
            stats.setdefault('_perms', set()).update((n, tuple(p)) for n, p in policy.observed)
            nperm = sum(1 for n, p in policy.observed if n >= 2)
            count('set_iterations', nperm)
            count('set_iterations_nonidentity', sum(1 for n, p in policy.observed if list(p) != list(range(n))))
            if nperm:
                count('calls_reaching_set_order')
        observed = [list(p) for _n, p in policy.observed] if policy is not None else None

        def viol(cls, detail, val_index=None):
            violations.append({'class': cls, 'detail': detail, 'policy_index': pi, 'policy': pdoc,
                               'perms_observed': observed, 'valuation_index': val_index,
                               'text': in_text, 'real_set': real_set})

        if exc is not None:
            # the reference tree for the classification (the failed call may have narrowed `inp`)
            ref = ref_expr
            if const_subexprs_undefined(ref):
                count('raised_undefined_constant')
                continue
            if isinstance(exc, ZeroDivisionError) and identically_zero_divisor(ref, sc['valuations']):
                count('raised_zero_divisor')
                continue
            if never_defined(ref, sc['valuations']):
                # the input has no value under any valuation of the grid (e.g. gcd of a non-integer
                # literal and a field): nothing for simplify to preserve, so raising is tolerated
                count('raised_identically_undefined')
                continue
            count('raised_violation')
            viol('raises:' + type(exc).__name__, '%s: %s' % (type(exc).__name__, str(exc)[:200]))
            continue
        # --- result kind and type
        if kind == 'pred':
            if not isinstance(out, HplPredicate):
                viol('kind', 'predicate in, %s out' % type(out).__name__)
                continue
            if isinstance(out, HplPredicateExpression):
                e = out.expression
                if isinstance(e, HplLiteral) and isinstance(e.value, bool):
                    viol('vacuous', 'condition simplified to %s but a general predicate came out' % e.value)
                    continue
            simp_expr = out.condition
        else:
            if not isinstance(out, HplExpression):
                viol('kind', 'expression in, %s out' % type(out).__name__)
                continue
            if out.data_type != in_type:
                viol('type', 'input type %r, output type %r' % (in_type, out.data_type))
                continue
            simp_expr = out
        try:
            revalidate(out)
        except RecursionError:
            pass
        except Exception as e:
            viol('invalid-ast', '%s: %s' % (type(e).__name__, str(e)[:200]))
            continue
        if str(out) != in_text:
            changed_any = True
            count('outputs_changed')
        # --- exactly determined constants (no tolerance applies: nothing is reordered or iterated)
        ex = ref_exact
        if ex is not None:
            count('exact_constant_inputs')
            bad = exact_mismatch(ex[1], simp_expr)
            if bad:
                viol('constant', bad)
                continue
        elif pi == policies[0][0]:
            bad = None
            for sub in const_subterms(term)[:3]:
                bad = judge_const_subterm(sub, count)
                if bad:
                    break
            if bad:
                viol('constant', bad)
                continue
        # --- meaning, against the reference tree (nothing simplify did to `inp` can leak in)
        for vi, envd in enumerate(valuations):
            d, tag = judge_valuation(ref_expr, simp_expr, envd)
            if trace is not None:
                trace.append(tag)
            count('val_' + tag)
            count('evaluations')
            if d is not None:
                viol(d[0], d[1], vi if only_vals is None else only_vals[vi])
                break
        if kind == 'pred' and out.is_vacuous:
            count('vacuous_outputs')
    if changed_any:
        count('inputs_changed')
    return violations


###############################################################################
# Worker
###############################################################################


def _install_probe():
    """Cheap line probe on hpl/rewrite.py (sys.monitoring, each location reported once)."""
    hits = set()
    try:
        mon = sys.monitoring
        tool = mon.COVERAGE_ID
        try:
            mon.use_tool_id(tool, 'hplsim')
        except ValueError:
            return hits

        def on_line(code, line):
            if code.co_filename.endswith('hpl/rewrite.py'):
                hits.add(line)
            return mon.DISABLE

        mon.register_callback(tool, mon.events.LINE, on_line)
        mon.set_events(tool, mon.events.LINE)
    except AttributeError:
        pass
    return hits


RUN_HANG_S = 60.0


class RunHang(BaseException):
    """One run took more than RUN_HANG_S of real time (a harness guard, not part of the simulation)."""


def _on_alarm(_sig, _frm):
    raise RunHang()


def worker(job):
    cfg = job['cfg']
    hits = _install_probe()
    signal.signal(signal.SIGALRM, _on_alarm)
    stats = {}
    found = []
    digests = []
    t0 = time.monotonic()
    texts = set()
    changed_texts = set()
    samples = []
    for idx in job['indices']:
        if time.monotonic() > job['deadline']:  # one deadline for the whole batch (CLOCK_MONOTONIC is system-wide)
            stats['runs_skipped_for_time'] = stats.get('runs_skipped_for_time', 0) + 1
            continue
        seed = core.derive(job['master'], PROP, idx)
        sc = gen_scenario(seed, cfg)
        before = stats.get('inputs_changed', 0)
        tr = []
        signal.setitimer(signal.ITIMER_REAL, RUN_HANG_S)
        try:
            vs = execute(sc, stats, real_set=job.get('real_set', False), trace=tr)
        except RunHang:
            # not a verdict on C08 (which is about the result, not the running time): counted,
            # listed in the evidence, and the batch goes on
            stats['runs_hung'] = stats.get('runs_hung', 0) + 1
            stats.setdefault('hung_samples', [])
            if len(stats['hung_samples']) < 3:
                stats['hung_samples'].append(gen.render(sc['term']) if not gen.contains(sc['term'], 'callv') else repr(sc['term']))
            continue
        finally:
            signal.setitimer(signal.ITIMER_REAL, 0)
        stats['runs'] = stats.get('runs', 0) + 1
        txt = repr(sc['term'])
        texts.add(txt)
        if stats.get('inputs_changed', 0) > before:
            changed_texts.add(txt)
        if len(samples) < 2 and not gen.contains(sc['term'], 'callv'):
            samples.append({'run_index': idx, 'seed': seed, 'kind': sc['kind'], 'input': gen.render(sc['term']),
                            'policies': sc['policies'][:3], 'first_valuation': gen.valuation_to_json(sc['valuations'][0])})
        digests.append((idx, sc['digest_gen'], core.derive(repr(tr))))
        for v in vs:
            v['run_index'] = idx
            v['seed'] = seed
            found.append(v)
        if len(found) >= 40:
            break
    perms = sorted(stats.pop('_perms', set()))
    return {'stats': stats, 'violations': found, 'digests': digests, 'lines': sorted(hits), 'perms': perms,
            'distinct_inputs': len(texts), 'distinct_changed': len(changed_texts), 'samples': samples}


###############################################################################
# Minimisation and replay
###############################################################################


def fails_same(sc, cls, policy_index, real_set=False, val_index=None):
    try:
        vs = execute(sc, {}, only_policy=policy_index if not real_set else None, real_set=real_set)
    except Exception:
        return None
    for v in vs:
        if v['class'] == cls:
            return v
    return None


def minimise(sc, v, budget=250):
    """Shrink the term while the same violation class persists under the same order policy."""
    cls, pi, real = v['class'], v['policy_index'], v.get('real_set', False)
    cur = dict(sc)
    cur.pop('perm_script', None)
    best_v = v
    calls = 0
    improved = True
    while improved and calls < budget:
        improved = False
        for cand in gen.shrink_candidates(cur['term']):
            if calls >= budget:
                break
            trial = dict(cur)
            trial['term'] = cand
            if trial['kind'] == 'pred' and cand[0] == 'lit':
                continue
            calls += 1
            r = fails_same(trial, cls, pi, real)
            if r is not None:
                cur = trial
                best_v = r
                improved = True
                break
    # simplest order policy that still fails
    if not real:
        for simple in ({'kind': 'identity'}, {'kind': 'reverse'}):
            trial = dict(cur)
            trial['policies'] = list(cur['policies'])
            trial['policies'][pi] = simple
            r = fails_same(trial, cls, pi)
            if r is not None:
                cur = trial
                best_v = r
                break
    return cur, best_v


def make_replay(sc, v):
    doc = {
        'property': PROP,
        'class': v['class'],
        'detail': v['detail'],
        'kind': sc['kind'],
        'term': gen.listify(sc['term']),
        'text': v['text'],
        'source': gen.render(sc['term']) if not gen.contains(sc['term'], 'callv') else repr(sc['term']),
        'policy': sc['policies'][v['policy_index']],
        'perms_observed': v['perms_observed'],
        'real_set': v.get('real_set', False),
        'valuation': gen.valuation_to_json(sc['valuations'][v['valuation_index']]) if v.get('valuation_index') is not None else None,
        'valuations_all': [gen.valuation_to_json(e) for e in sc['valuations']],
        'seed': sc.get('seed'),
        'warnings_filter': sc.get('warnings', 'default'),
        'pythonhashseed': os.environ.get('PYTHONHASHSEED'),
        'how_to_replay': '/venv/bin/python /verif/check.py C08 --replay <this file>',
    }
    return doc


def replay(doc):
    """Execute a replay file: literal term, literal permutations, literal valuations; no PRNG."""
    term = gen.tuplify(doc['term'])
    vals = [gen.valuation_from_json(e) for e in doc['valuations_all']]
    sc = {'kind': doc['kind'], 'term': term, 'policies': [doc['policy']], 'valuations': vals, 'warnings': doc.get('warnings_filter', 'default')}
    if doc.get('perms_observed') is not None and not doc.get('real_set'):
        sc['perm_script'] = {'0': doc['perms_observed']}
    vs = execute(sc, {}, only_policy=None if doc.get('real_set') else 0, real_set=doc.get('real_set', False))
    for v in vs:
        if v['class'] == doc['class']:
            return v
    return vs[0] if vs else None


def fingerprint(v):
    return v['class']


###############################################################################
# Main
###############################################################################


SIMPLIFY_FUNCS = ('simplify', 'get_conjuncts', 'get_disjuncts', 'is_self_or_field', 'is_true', 'is_false', 'is_not',
                  'is_number_literal', 'is_negative_number', 'true', 'false')


def executable_lines(path):
    """Executable lines of the simplifier's functions in hpl/rewrite.py (the probe's denominator)."""
    try:
        src = open(path).read()
    except OSError:
        return set()
    code = compile(src, path, 'exec')
    lines = set()
    stack = [(code, False)]
    while stack:
        c, inside = stack.pop()
        mine = inside or c.co_name in SIMPLIFY_FUNCS or c.co_name.startswith('_simplify') or c.co_name.startswith('_pre_simplify') or c.co_name.startswith('_obvious')
        if mine:
            for _s, _e, ln in c.co_lines():
                if ln is not None and ln != c.co_firstlineno:
                    lines.add(ln)
        for k in c.co_consts:
            if hasattr(k, 'co_lines'):
                stack.append((k, mine))
    return lines


def run_batch(tier, master, real_set=False, runs=None, offset=0, nproc=None):
    cfg = dict(TIERS[tier])
    if runs is not None:
        cfg['runs'] = runs
    scale = float(os.environ.get('HPLSIM_SCALE', '1'))
    nruns = max(16, int(cfg['runs'] * scale))
    nproc = nproc or int(os.environ.get('HPLSIM_NPROC', '0')) or min(16, os.cpu_count() or 1)
    indices = list(range(offset, offset + nruns))
    jobs = [{'cfg': cfg, 'indices': ch, 'master': master, 'deadline': time.monotonic() + cfg['wall'], 'real_set': real_set}
            for ch in core.chunk(indices, nproc * 4)]
    return cfg, core.run_pool(worker, jobs, nproc=nproc, wall_cap=cfg['wall'] + 240)


def main(argv):
    ap = argparse.ArgumentParser(prog='check.py C08')
    ap.add_argument('--tier', default=core.tier_from_env())
    ap.add_argument('--replay')
    ap.add_argument('--real-set-slice', action='store_true', help='internal: run a slice with the real set under this interpreter\'s hash seed')
    ap.add_argument('--runs', type=int)
    ap.add_argument('--offset', type=int, default=0)
    ap.add_argument('--digests', action='store_true', help='print run digests (determinism self-test)')
    args = ap.parse_args(argv)
    master = core.master_seed()

    if args.replay:
        doc = core.load_replay(args.replay)
        v = replay(doc)
        if v is None:
            print('REPLAY-RESULT class=none (no violation reproduced)')
            return core.EXIT_OK
        print('REPLAY-RESULT class=%s' % v['class'])
        print('  input: %s' % v['text'])
        print('  ' + v['detail'])
        print('VIOLATION property=%s replay=%s' % (PROP, args.replay))
        return core.EXIT_VIOLATION

    t0 = time.monotonic()
    if args.real_set_slice:
        cfg, results = run_batch(args.tier, master, real_set=True, runs=args.runs, offset=args.offset)
        import json
        out = {'violations': [], 'stats': {}}
        for r in results:
            core.merge_counts(out['stats'], r['stats'])
            out['violations'].extend(r['violations'][:5])
        print('SLICE-JSON ' + json.dumps(out, default=repr))
        return core.EXIT_OK

    try:
        cfg, results = run_batch(args.tier, master, runs=args.runs, offset=args.offset)
    except core.HarnessError as e:
        print('HARNESS-ERROR: property=%s %s' % (PROP, str(e)[-1500:]))
        return core.EXIT_HARNESS

    stats = {}
    found = []
    lines = set()
    distinct_inputs = distinct_changed = 0
    samples = []
    digests = []
    perms = set()
    for r in results:
        perms.update((n, tuple(p)) for n, p in r.get('perms', ()))
        core.merge_counts(stats, {k: v for k, v in r['stats'].items() if k not in ('reject_samples', 'hung_samples')})
        if r['stats'].get('hung_samples'):
            stats['hung_samples'] = (stats.get('hung_samples', []) + r['stats']['hung_samples'])[:5]
        found.extend(r['violations'])
        lines.update(r['lines'])
        distinct_inputs += r['distinct_inputs']
        distinct_changed += r['distinct_changed']
        samples.extend(r['samples'])
        digests.extend(r['digests'])
        if 'reject_samples' in r['stats']:
            stats.setdefault('reject_samples', [])
            stats['reject_samples'] = (stats['reject_samples'] + r['stats']['reject_samples'])[:5]
    if args.digests:
        for idx, d, e in sorted(digests):
            print('DIGEST %d %s %x' % (idx, d, e))

    # hash-seed slices with the real set (thorough): validates that the seam models the real thing
    slice_info = []
    harness_errors = []
    for i in range(0 if os.environ.get('HPLSIM_SLICE') else cfg.get('hashseed_slices', 0)):
        hs = str(101 + i)
        env = dict(os.environ)
        env['HPLSIM_HASHSEED'] = hs
        env['PYTHONHASHSEED'] = hs
        cmd = [sys.executable, os.path.join(core.VERIF, 'check.py'), PROP, '--tier', args.tier, '--real-set-slice',
               '--runs', str(max(2500, stats.get('runs', 0) // 20)), '--offset', str(10_000_000 * (i + 1))]
        try:
            p = subprocess.run(cmd, env=env, capture_output=True, text=True, timeout=cfg['wall'] + 300)
            line = [ln for ln in p.stdout.splitlines() if ln.startswith('SLICE-JSON ')]
            if p.returncode != 0 or not line:
                harness_errors.append('real-set slice under PYTHONHASHSEED=%s failed: %s' % (hs, (p.stdout + p.stderr)[-800:]))
                continue
            import json
            sl = json.loads(line[0][len('SLICE-JSON '):])
            slice_info.append({'pythonhashseed': hs, 'runs': sl['stats'].get('runs', 0),
                               'simplify_calls': sl['stats'].get('simplify_calls', 0),
                               'evaluations': sl['stats'].get('evaluations', 0),
                               'violations': len(sl['violations'])})
            for v in sl['violations']:
                v['from_hashseed'] = hs
                found.append(v)
        except subprocess.TimeoutExpired:
            harness_errors.append('real-set slice under PYTHONHASHSEED=%s timed out' % hs)

    # ---- violations: dedupe by class+text, minimise, verify replay, match known findings
    known = core.load_known_findings(PROP)
    new, known_hits = [], []
    seen = set()
    by_class = {}
    for v in found:
        by_class.setdefault(v['class'], []).append(v)
    report = []
    for cls, vs in sorted(by_class.items()):
        vs.sort(key=lambda v: len(v['text']))
        report.extend(vs[:int(os.environ.get('HPLSIM_REPORT_MAX', '3'))])
    for v in report:
        if v.get('from_hashseed'):
            # found under another hash seed with the real set: replay needs that interpreter
            sc = gen_scenario(v['seed'], cfg)
            doc = make_replay(sc, v)
            doc['pythonhashseed'] = v['from_hashseed']
            name = 'realset_%s_%d' % (v['class'].replace(':', '_'), v['run_index'])
            path = core.write_replay(PROP, name, doc)
            new.append((path, '%s on %s' % (v['class'], v['text'][:160])))
            continue
        sc = gen_scenario(v['seed'], cfg)
        msc, mv = minimise(sc, v)
        key = (mv['class'], mv['text'])
        if key in seen:
            continue
        seen.add(key)
        doc = make_replay(msc, mv)
        name = '%s_%d' % (mv['class'].replace(':', '_'), v['run_index'])
        path = core.write_replay(PROP, name, doc)
        hit = None
        for k in known:
            if k.get('class') == mv['class'] and (k.get('text') in (None, mv['text'])):
                hit = k
                break
        if hit is not None:
            known_hits.append('%s: %s' % (hit.get('what', mv['class']), mv['text'][:120]))
            continue
        if not os.environ.get('HPLSIM_NO_VERIFY'):
            ok, out = core.verify_replay_fresh(PROP, path, mv['class'])
            if not ok:
                harness_errors.append('violation %s did not replay in a fresh interpreter (%s): %s' % (mv['class'], path, out[-300:]))
                continue
        new.append((path, '%s on `%s`: %s' % (mv['class'], mv['text'][:200], mv['detail'][:200])))

    # the same check, other run indices, under other interpreter configurations (python -O)
    slices = [] if args.digests else core.run_config_slices(PROP, args.tier, max(8, cfg['runs'] // 10), new, known_hits, harness_errors)
    wall = time.monotonic() - t0
    allx = executable_lines(os.path.join(core.SRC, 'hpl', 'rewrite.py'))
    runs = stats.get('runs', 0)
    coverage = {
        'interpreter_configuration_slices': slices,
        'evaluations': int(stats.get('evaluations', 0)),
        'distinct_nontrivial': int(distinct_changed),
        'rule': 'cases = (generated input, iteration-order policy, valuation) triples judged by the reference evaluator; '
                'an input is non-trivial when simplify changed its printed form under at least one order; distinct = distinct '
                'generated terms (counted per worker chunk, seeds are disjoint so duplicates across chunks are only possible by coincidence)',
        'samples': samples[:4],
        'runs': runs,
        'runs_per_hour': int(runs / wall * 3600) if wall > 0 else 0,
        'seeds': 'run i uses seed H(VERIF_SEED, "C08", i), i in [0, %d)' % runs,
        'distinct_inputs': distinct_inputs,
        'simplify_calls': stats.get('simplify_calls', 0),
        'fault_kinds_fired': {
            'set_iterations_owned_by_scheduler': stats.get('set_iterations', 0),
            'set_iterations_with_non_identity_order': stats.get('set_iterations_nonidentity', 0),
            'simplify_calls_reaching_an_order_choice': stats.get('calls_reaching_set_order', 0),
            'distinct_permutations_applied': len(perms),
            'largest_permuted_set': max([n for n, _p in perms] or [0]),
        },
        'valuation_outcomes': {k[4:]: v for k, v in stats.items() if k.startswith('val_')},
        'exceptions': {k: v for k, v in stats.items() if k.startswith('raised_')},
        'inputs_rejected_by_parser': stats.get('inputs_rejected', 0),
        'reject_samples': stats.get('reject_samples', []),
        'vacuous_outputs': stats.get('vacuous_outputs', 0),
        'simplifier_lines_hit': len(lines & allx) if allx else len(lines),
        'simplifier_lines_executable': len(allx),
        'simplifier_lines_never_hit': sorted(allx - lines)[:80],
        'real_set_hashseed_slices': slice_info,
        'runs_skipped_for_time': stats.get('runs_skipped_for_time', 0),
        'runs_abandoned_after_%ds_real_time' % int(RUN_HANG_S): {'count': stats.get('runs_hung', 0), 'inputs': stats.get('hung_samples', [])},
        'exactly_determined_constants': {'whole_inputs': stats.get('exact_constant_inputs', 0), 'constant_subexpressions': stats.get('exact_constant_subterms', 0)},
        'inputs_by_warnings_filter': {k[16:]: v for k, v in sorted(stats.items()) if k.startswith('warnings_filter_')},
        'pythonhashseed': os.environ.get('PYTHONHASHSEED'),
        'real_vs_stub': {'real': ['hpl.rewrite.simplify and everything below it', 'hpl.parser', 'hpl.ast'],
                         'stub_or_model': ['reference evaluator (oracle)', 'SimSet iteration-order seam', 'valuation grid']},
        'simulated_time': 'not applicable: no clock in this property',
    }
    assumptions = [
        'semantics of operators/functions as tabulated in hplsim/refeval.py; where the docs are silent a violation must hold under every admissible reading (strict / short-circuit / Kleene connectives); a set literal denotes a set (each value once)',
        'valuations where a comparison lands within 1e-9..1e-6 relative distance are skipped as numerically fragile; so is a comparison that looks exact but rests on the sum or product of three or more set elements with an inexact float among them (the order of the additions is open)',
        'a reference-free input or subexpression made only of number literals, arithmetic, comparisons, connectives and single-valued functions denotes exactly the number Python int / IEEE double arithmetic gives bottom-up; its folded literal must equal it exactly',
        'INF/NAN constants, str(), bool/int/float of strings, ranges with lower bound above upper bound or non-integer bounds under aggregation are outside the judged workload (unspecified)',
        'hash-order nondeterminism is explored only at the three set() sites of hpl.rewrite (via SimSet) and through per-slice PYTHONHASHSEED variation',
    ]
    core.write_evidence(PROP, args.tier, master, 'exploration', coverage, wall, len(new), assumptions)
    print('C08: %d runs, %d simplify calls, %d evaluations, %d set-order choices, %.1fs' % (
        runs, stats.get('simplify_calls', 0), stats.get('evaluations', 0), stats.get('set_iterations', 0), wall))
    return core.finish(PROP, new, known_hits, harness_errors)
