"""Reference monitor: finite timed-trace semantics of HPL properties (the oracle of C12).

Written from docs/lang.md (scopes: globally / after / until / after-until, "first time" wording;
patterns: absence, existence, response, prevention, requirement; time bounds; alias bindings).
It reads real hpl AST objects through their data fields only.

trace: list of (t_ms, topic, payload) with non-decreasing t_ms; payload: dict field -> value.
Readings of scope re-activation: 'single' (the doc's "first time") and 'reactivate' (after a
terminated after-until scope, a later activator opens a new instance).
"""

from fractions import Fraction

from hplsim import refeval

READINGS = ('single', 'reactivate')
_RD = refeval.ALL_READINGS[0]


class MonitorError(Exception):
    """The monitor met something it has no meaning for: harness error, never a verdict."""


class Alt:
    """One simple event: topic, alias, predicate condition (None = always true / False = never)."""
    __slots__ = ('topic', 'alias', 'cond', 'const')

    def __init__(self, ev):
        self.topic = ev.name
        self.alias = ev.alias
        pred = ev.predicate
        if pred.is_vacuous:
            self.cond = None
            self.const = bool(pred.is_true)
        else:
            self.cond = pred.condition
            self.const = None

    def matches(self, msg, env):
        if msg[1] != self.topic:
            return False
        if self.cond is None:
            return self.const
        oc = refeval.outcome(self.cond, refeval.Env(msg[2], env), _RD)
        if oc[0] != 'val' or not isinstance(oc[1], bool):
            raise MonitorError('predicate has no boolean value on %r: %r' % (msg, oc))
        return oc[1]


def flatten(event):
    """Alternatives of an event in source order, by the monitor's own walk over the two operand fields
    of a disjunction (not through the library's simple_events(), which is part of what is checked)."""
    if type(event).__name__ == 'HplEventDisjunction':
        return flatten(event.event1) + flatten(event.event2)
    return [event]


class Ev:
    """An event position: list of alternatives (a disjunction matches iff some alternative does)."""
    __slots__ = ('alts',)

    def __init__(self, event):
        self.alts = [Alt(e) for e in flatten(event)] if event is not None else None

    def match(self, msg, env):
        """Returns the matching alternative (for alias binding) or None."""
        for a in self.alts:
            if a.matches(msg, env):
                return a
        return None


class Prop:
    __slots__ = ('scope', 'pattern', 'activator', 'terminator', 'trigger', 'behaviour', 'bound', 'lower')

    def __init__(self, p):
        self.scope = p.scope.scope_type.name  # GLOBAL | AFTER | UNTIL | AFTER_UNTIL
        self.pattern = p.pattern.pattern_type.name  # ABSENCE | EXISTENCE | RESPONSE | REQUIREMENT | PREVENTION
        self.activator = Ev(p.scope.activator) if p.scope.activator is not None else None
        self.terminator = Ev(p.scope.terminator) if p.scope.terminator is not None else None
        self.trigger = Ev(p.pattern.trigger) if p.pattern.trigger is not None else None
        self.behaviour = Ev(p.pattern.behaviour)
        mt = p.pattern.max_time
        # the bound exactly as the library stores it (a float number of seconds), no rounding: a copy
        # whose bound differs by a fraction of a millisecond is a different property
        self.bound = None if mt == float('inf') else Fraction(mt) * 1000
        # `min_time` exists in the data model (API only; the language and its documentation have no
        # syntax for it). It is read as the lower end of the window [min_time, max_time]. The reading
        # matters only in so far as a copy that LOSES the field must not pass for the original.
        lo = getattr(p.pattern, 'min_time', 0.0) or 0.0
        self.lower = Fraction(lo) * 1000


def _bind(env, alt, msg):
    if alt.alias:
        e = dict(env)
        e[alt.alias] = msg[2]
        return e
    return env


def instances(P, trace, reading):
    """Scope instances: (first index inside, index one past the end, start time, env)."""
    n = len(trace)
    out = []
    if P.scope == 'GLOBAL':
        return [(0, n, 0, {})]
    if P.scope == 'UNTIL':
        end = n
        for j in range(n):
            if P.terminator.match(trace[j], {}):
                end = j
                break
        return [(0, end, 0, {})]
    i = 0
    while i < n:
        a = P.activator.match(trace[i], {})
        if a is None:
            i += 1
            continue
        env = _bind({}, a, trace[i])
        if P.scope == 'AFTER':
            out.append((i + 1, n, trace[i][0], env))
            return out
        end = n
        for j in range(i + 1, n):
            if P.terminator.match(trace[j], env):
                end = j
                break
        out.append((i + 1, end, trace[i][0], env))
        if reading == 'single' or end >= n:
            return out
        i = end + 1
    return out


def _within(bound, dt):
    return bound is None or dt <= bound


def _in_window(P, dt):
    return dt >= P.lower and (P.bound is None or dt <= P.bound)


def holds_in(P, trace, lo, hi, t0, env):
    pat = P.pattern
    if pat == 'ABSENCE':
        for k in range(lo, hi):
            if _in_window(P, trace[k][0] - t0) and P.behaviour.match(trace[k], env):
                return False
        return True
    if pat == 'EXISTENCE':
        for k in range(lo, hi):
            if _in_window(P, trace[k][0] - t0) and P.behaviour.match(trace[k], env):
                return True
        return False
    if pat == 'RESPONSE':
        for k in range(lo, hi):
            a = P.trigger.match(trace[k], env)
            if a is None:
                continue
            env2 = _bind(env, a, trace[k])
            ok = False
            for m in range(k + 1, hi):
                if not _within(P.bound, trace[m][0] - trace[k][0]):
                    break
                if trace[m][0] - trace[k][0] < P.lower:
                    continue
                if P.behaviour.match(trace[m], env2):
                    ok = True
                    break
            if not ok:
                return False
        return True
    if pat == 'PREVENTION':
        for k in range(lo, hi):
            a = P.trigger.match(trace[k], env)
            if a is None:
                continue
            env2 = _bind(env, a, trace[k])
            for m in range(k + 1, hi):
                if not _within(P.bound, trace[m][0] - trace[k][0]):
                    break
                if trace[m][0] - trace[k][0] < P.lower:
                    continue
                if P.behaviour.match(trace[m], env2):
                    return False
        return True
    if pat == 'REQUIREMENT':
        for m in range(lo, hi):
            b = P.behaviour.match(trace[m], env)
            if b is None:
                continue
            env2 = _bind(env, b, trace[m])
            ok = False
            for k in range(m - 1, lo - 1, -1):
                if not _within(P.bound, trace[m][0] - trace[k][0]):
                    break
                if trace[m][0] - trace[k][0] < P.lower:
                    continue
                if P.trigger.match(trace[k], env2):
                    ok = True
                    break
            if not ok:
                return False
        return True
    raise MonitorError('pattern %s' % pat)


def satisfies(P, trace, reading):
    for lo, hi, t0, env in instances(P, trace, reading):
        if not holds_in(P, trace, lo, hi, t0, env):
            return False
    return True
