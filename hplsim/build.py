"""Term -> real hpl AST, through the parser where the grammar can write the term, through the AST
constructors (mirroring what the parser callbacks do: cast, then construct) where it cannot."""

from hplsim import gen

_parsers = {}


def parser(kind):
    """Long-lived parser objects, one per kind per worker process."""
    p = _parsers.get(kind)
    if p is None:
        from hpl import parser as hp
        p = getattr(hp, kind + '_parser')()
        _parsers[kind] = p
    return p


def reset_parsers():
    _parsers.clear()


def build_expr(term):
    if not gen.contains(term, 'callv'):
        return parser('expression').parse(gen.render(term))
    return _api(term)


def build_pred(term):
    from hpl.ast.predicates import predicate_from_expression
    if not gen.contains(term, 'callv'):
        return parser('condition').parse(gen.render(term))
    return predicate_from_expression(_api(term))


def _api(t):
    from hpl.ast import expressions as E
    from hpl.types import DataType
    if not gen.contains(t, 'callv'):
        return parser('expression').parse(gen.render(t))
    k = t[0]
    if k == 'callv':
        args = tuple(_api(a).cast(DataType.NUMBER) for a in t[2])
        return E.HplFunctionCall(t[1], args)
    if k == 'bin':
        op = E._convert_binary_operator(t[1])
        a = _api(t[2]).cast(op.parameter1)
        b = _api(t[3]).cast(op.parameter2)
        return E.HplBinaryOperator(op, a, b)
    if k == 'un':
        op = E._convert_unary_operator(t[1])
        return E.HplUnaryOperator(op, _api(t[2]).cast(op.parameter))
    if k == 'call':
        return E.HplFunctionCall(t[1], (_api(t[2]),))
    if k == 'set':
        return E.HplSet(tuple(_api(e) for e in t[1]))
    if k == 'range':
        return E.HplRange(_api(t[1]), _api(t[2]), exclude_min=bool(t[3]), exclude_max=bool(t[4]))
    if k == 'idx':
        return E.HplArrayAccess(_api(t[1]).cast(DataType.ARRAY), _api(t[2]).cast(DataType.NUMBER))
    if k == 'dot':
        return E.HplFieldAccess(_api(t[1]).cast(DataType.MESSAGE), t[2])
    if k == 'quant':
        return E.HplQuantifier(t[1], t[2], _api(t[3]), _api(t[4]))
    raise ValueError('cannot build %r through the API' % (t,))
