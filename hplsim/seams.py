"""Seams owned by the simulator. None of them needs a change in /repo (DESIGN 2.2).

SimSet       - replaces the `set` builtin as seen from hpl.rewrite (a module global), so the
               simulator decides the iteration order at the three hash-order-dependent sites.
Interrupter  - one-shot sys.settrace hook raising an exception at the k-th line event executed in
               hpl/lark/attr code: an aborted call at a simulator-chosen instant.
RecursionFault - runs a call under a lowered recursion limit so that a *real* RecursionError
               surfaces wherever the stack happens to be.
"""

import random
import sys

###############################################################################
# SimSet
###############################################################################


class OrderPolicy:
    """Decides the permutation used for each SimSet iteration of a run.

    kind: 'identity' | 'reverse' | 'rotate' | 'shuffle' | 'script'
    A 'script' policy replays literal permutations recorded by an earlier execution.
    """

    def __init__(self, kind='identity', k=1, seed=0, script=None):
        self.kind = kind
        self.k = k
        self.seed = seed
        self.rng = random.Random(seed) if kind == 'shuffle' else None
        self.script = list(script) if script is not None else None
        self.pos = 0
        self.observed = []  # (n, perm) for every iteration that happened

    def to_json(self):
        return {'kind': self.kind, 'k': self.k, 'seed': self.seed}

    @classmethod
    def from_json(cls, doc, script=None):
        if script is not None:
            return cls('script', script=script)
        return cls(doc.get('kind', 'identity'), doc.get('k', 1), doc.get('seed', 0))

    def perm(self, n):
        if self.kind == 'script':
            p = None
            if self.pos < len(self.script):
                cand = self.script[self.pos]
                if len(cand) == n and sorted(cand) == list(range(n)):
                    p = list(cand)
            self.pos += 1
            if p is None:
                p = list(range(n))
        elif self.kind == 'identity':
            p = list(range(n))
        elif self.kind == 'reverse':
            p = list(range(n - 1, -1, -1))
        elif self.kind == 'rotate':
            k = self.k % n if n else 0
            p = list(range(k, n)) + list(range(0, k))
        else:
            p = list(range(n))
            self.rng.shuffle(p)
        self.observed.append((n, tuple(p)))
        return p


_active_policy = [None]


class SimSet:
    """Order-owning stand-in for `set` (only what hpl.rewrite uses: construct, len, iterate, in).

    Deduplication uses the elements' real __eq__/__hash__; insertion order is kept (so nothing
    depends on the string hash seed) and every iteration yields the permutation the active
    OrderPolicy decides.
    """

    def __init__(self, iterable=()):
        self._items = list(dict.fromkeys(iterable))

    def __len__(self):
        return len(self._items)

    def __contains__(self, x):
        return x in dict.fromkeys(self._items)

    def __iter__(self):
        pol = _active_policy[0]
        n = len(self._items)
        if pol is None or n < 2:
            return iter(list(self._items))
        p = pol.perm(n)
        return iter([self._items[i] for i in p])

    def add(self, x):
        if x not in self._items:
            self._items.append(x)

    def __repr__(self):
        return 'SimSet(%r)' % (self._items,)


class simset_installed:
    """Context manager: hpl.rewrite sees SimSet instead of set, iteration order owned by policy."""

    def __init__(self, policy):
        self.policy = policy

    def __enter__(self):
        import hpl.rewrite as rw
        self.rw = rw
        self.had = 'set' in rw.__dict__
        self.prev = rw.__dict__.get('set')
        rw.set = SimSet
        self.prev_policy = _active_policy[0]
        _active_policy[0] = self.policy
        return self.policy

    def __exit__(self, *exc):
        _active_policy[0] = self.prev_policy
        if self.had:
            self.rw.set = self.prev
        else:
            try:
                del self.rw.set
            except AttributeError:
                pass
        return False


###############################################################################
# Interrupter (aborted calls)
###############################################################################


class SimInterrupt(BaseException):
    """Asynchronous abort injected by the simulator (not an Exception on purpose)."""


FAULT_EXC = {
    'SimInterrupt': SimInterrupt,
    'KeyboardInterrupt': KeyboardInterrupt,
    'MemoryError': MemoryError,
}

_TRACED_PARTS = ('/hpl/', '/lark/', '/attr/', '/attrs/', '/typeguard/')


def _traced_file(fn):
    for p in _TRACED_PARTS:
        if p in fn:
            return True
    return False


class Interrupter:
    """Raises `exc` at the k-th traced line event; k=None only counts events.

    Use: with Interrupter(k, 'SimInterrupt') as it: call()
    it.fired -> bool, it.events -> events seen, it.site -> (file, line) where it fired.
    """

    def __init__(self, k=None, exc='SimInterrupt', parts=None):
        self.k = k
        self.exc = FAULT_EXC[exc] if isinstance(exc, str) else exc
        self.events = 0
        self.fired = False
        self.site = None
        self.parts = parts
        self._cache = {}

    def _want(self, fn):
        r = self._cache.get(fn)
        if r is None:
            if self.parts is None:
                r = _traced_file(fn)
            else:
                r = any(p in fn for p in self.parts)
            self._cache[fn] = r
        return r

    def _global(self, frame, event, arg):
        if self.fired:
            return None
        if self._want(frame.f_code.co_filename):
            return self._local
        return None

    def _local(self, frame, event, arg):
        if event == 'line' and not self.fired:
            self.events += 1
            if self.k is not None and self.events >= self.k:
                self.fired = True
                fn = frame.f_code.co_filename
                i = fn.rfind('/', 0, fn.rfind('/'))
                self.site = (fn[i + 1:], frame.f_lineno)
                sys.settrace(None)
                raise self.exc('injected at line event %d' % self.events)
        return self._local

    def __enter__(self):
        self._prev = sys.gettrace()
        sys.settrace(self._global)
        return self

    def __exit__(self, *exc):
        sys.settrace(self._prev)
        return False


def count_line_events(fn, *args, **kw):
    """Run fn under a counting Interrupter; returns (events, outcome) where outcome is
    ('ok', result) or ('exc', exception)."""
    it = Interrupter(None)
    try:
        with it:
            r = fn(*args, **kw)
        return it.events, ('ok', r)
    except Exception as e:
        return it.events, ('exc', e)


###############################################################################
# Real stack exhaustion
###############################################################################


def stack_depth():
    f = sys._getframe()
    n = 0
    while f is not None:
        n += 1
        f = f.f_back
    return n


class RecursionFault:
    """Run a call with only `extra` frames of head-room: a genuine RecursionError is raised by the
    interpreter wherever lark/attrs/hpl happen to be. Restores the limit afterwards."""

    def __init__(self, extra):
        self.extra = extra

    def __enter__(self):
        self.prev = sys.getrecursionlimit()
        sys.setrecursionlimit(max(stack_depth() + self.extra, 30))
        return self

    def __exit__(self, *exc):
        sys.setrecursionlimit(self.prev)
        return False
