"""C19 - the command-line tool's exit status and JSON output are faithful (DESIGN 7).

A run = one generated invocation (argv shape, content, path kind). It is executed fault-free
(strict oracle), then with one fault at every I/O call / write offset / line event the fault-free
execution exposed, then with seeded fault pairs. Real: hpl.cli, hpl.parser, attrs.asdict, json.
Stub: process boundary, file-system faults, stream faults (hplsim.simio).
"""

import argparse
import enum
import json
import math
import os
import shutil
import subprocess
import sys
import tempfile
import time

import attrs

from hplsim import build, core, gen, seams, simio

PROP = 'C19'

TIERS = {
    'quick': dict(runs=224, wall=300, sweep_max=16, pairs=3),
    'thorough': dict(runs=3000, wall=2400, sweep_max=60, pairs=8),
}

###############################################################################
# Oracle pieces
###############################################################################


def mirror(v):
    """Independent serialisation of an AST: attrs fields -> dict, enums -> value, non-finite -> None."""
    if isinstance(v, enum.Enum):
        return v.value
    if attrs.has(type(v)):
        return {a.name: mirror(getattr(v, a.name)) for a in attrs.fields(type(v))}
    if isinstance(v, float) and (math.isinf(v) or math.isnan(v)):
        return None
    if isinstance(v, (tuple, list, set, frozenset)):
        return [mirror(e) for e in v]
    if isinstance(v, dict):
        return {str(k): mirror(x) for k, x in v.items()}
    if isinstance(v, str):
        return str(v)  # lark Tokens are str subclasses
    return v


def _no_constants(name):
    raise ValueError('non-standard JSON constant %s' % name)


def strict_json(text):
    """Parse text as exactly one strictly valid JSON document; returns (ok, value)."""
    try:
        return True, json.loads(text, parse_constant=_no_constants)
    except ValueError:
        return False, None


def oracle_parse(mode, text):
    """(parses, ast). Direct call of the library on the text actually delivered."""
    if text is None:
        return False, None
    try:
        if mode == 'inline':
            return True, build.parser('property').parse(text)
        return True, build.parser('specification').parse(text)
    except RecursionError:
        raise
    except Exception:
        return False, None


###############################################################################
# Scenario generation
###############################################################################

CONSTS = ('PI', 'E', 'INF', 'NAN')


def _valid_property(sim):
    pg = gen.PropGen(sim, max_depth=sim.randint('d', 1, 3))
    p = pg.prop()
    if not p['meta'] and sim.coin('forcemeta', 0.3):
        p['meta'] = [('title', '"title %d"' % sim.choose('tv', 100))]
    if sim.coin('nonascii', 0.35):
        # text as people write it: accents, arrows, emoji inside strings
        word = sim.pick('naword', ('caf\u00e9', 'gr\u00f6\u00dfe \u2192 max', '\u65e5\u672c', 'ok \U0001f600', 'na\u00efve') + gen.STRING_CONTENTS)
        if sim.coin('nameta', 0.5):
            p['meta'] = [m for m in p['meta'] if m[0] != 'description'] + [('description', '"%s"' % word)]
        else:
            kind, trig, beh, bound = p['pattern']
            extra_s = ('bin', '=', ('field', 'txt'), ('lit', 'str', '"%s"' % word))

            def add_s(ev):
                if ev[0] == 'or':
                    return ('or', [add_s(ev[1][0])] + list(ev[1][1:]))
                return ('ev', ev[1], ev[2], extra_s if ev[3] is None else ('bin', 'and', ev[3], extra_s))
            p['pattern'] = (kind, trig, add_s(beh), bound)
    # sprinkle numeric constants (the serializer must null every non-finite float anywhere)
    if sim.coin('const', 0.5):
        c = sim.pick('constname', CONSTS)
        c2 = sim.pick('constname2', CONSTS)
        where = sim.choose('constpos', 9)
        if where >= 6:
            big = sim.pick('bignum', ('123456789012345678901234567890', '1e400', '2.5e-320', '0.0', '1e22', '18446744073709551616',
                                      '9' * 320, '1' + '0' * 309, '1' + '0' * 308, '7' * 5000, '4' * 400))
            extra = ('bin', sim.pick('bop', ('<', '=', '!=')), ('field', 'x'), ('un', '-', ('raw', big)) if where == 7 else ('raw', big))  # where in 6..8
        elif where == 0:
            extra = ('bin', 'in', ('field', 'x'), ('range', ('un', '-', ('const', c)), ('const', c2), sim.coin('cx', 0.3), False))
        elif where == 1:
            extra = ('bin', 'in', ('field', 'x'), ('set', [('const', c), ('lit', 'num', '1'), ('un', '-', ('const', c2))]))
        elif where == 2:
            extra = ('bin', '>', ('call', 'abs', ('bin', '*', ('field', 'x'), ('un', '-', ('const', c)))), ('lit', 'num', '0'))
        elif where == 3:
            extra = ('quant', 'forall', 'i', ('set', [('const', c), ('const', c2)]), ('bin', '<=', ('var', 'i'), ('field', 'x')))
        else:
            extra = ('bin', sim.pick('cop', ('<', '>', '=', '!=')), ('field', 'x'), ('const', c))
        kind, trig, beh, bound = p['pattern']

        def add(ev):
            if ev[0] == 'or':
                return ('or', [add(ev[1][0])] + list(ev[1][1:]))
            pred = ev[3]
            return ('ev', ev[1], ev[2], extra if pred is None else ('bin', 'and', pred, extra))
        p['pattern'] = (kind, trig, add(beh), bound)
    return gen.render_property(p)


EDGE_SPACES = ('\u00a0', '\u3000', '\u2028', '\u2029', '\u0085', '\u000b', '\u001c', '\u2003', '\u202f', '\u1680', '\ufeff', '\u200b')


def _invalid_text(sim, base):
    k = sim.weighted('invkind', [(3, 'syntax'), (2, 'type'), (2, 'sanity'), (1.5, 'unknownfun'), (1.5, 'dupmeta'),
                                 (1, 'empty'), (1, 'unicode'), (2.5, 'later_invalid'), (4, 'edge_space')])
    if k == 'edge_space':
        # a valid text plus ONE character that looks like white space and is none to the grammar
        # (pasted from a web page or a PDF, typed with a CJK input method), at the end, the start or
        # between two tokens; whether it parses is the library parser's call, not assumed here
        ch = sim.pick('spacech', EDGE_SPACES)
        where = sim.weighted('spacewhere', [(6, 'end'), (3, 'end_nl'), (1, 'start'), (1, 'inside')])
        if where == 'end':
            return base + ch, k
        if where == 'end_nl':
            return base + ch + '\n', k
        if where == 'start':
            return ch + base, k
        cut = base.find(' ')
        return (base[:cut] + ch + base[cut:] if cut > 0 else base + ch), k
    if k == 'later_invalid':
        # valid properties first, the offending one last (or in the middle)
        bad = sim.pick('badprop', ('globally: no', 'globally: no a { (x + True) > 1 }', 'globally: no a { x > @Z.x }',
                                   'globally: no a { foo(x) > 1 }', '# id: p1\n# id: p2\nglobally: no a', 'after a as M: b as M causes c'))
        return (base + '\n' + bad + ('\n' + base.split('\n')[-1] if sim.coin('middle', 0.3) else '')), k
    if k == 'syntax':
        return gen.mutate_tokens(sim, base), k
    if k == 'type':
        return 'globally: no a { (x + True) > 1 }' if sim.coin('t', 0.5) else base.replace(': ', ': no zz { not 3 } or ', 1) if False else 'globally: some b { (p and 2) }', k
    if k == 'sanity':
        return 'globally: no a { x > @Z.x }' if sim.coin('s', 0.5) else 'after a as M: b as M causes c', k
    if k == 'unknownfun':
        return 'globally: no a { foo(x) > 1 }', k
    if k == 'dupmeta':
        return '# id: p1\n# id: p2\n' + base.split('\n')[-1], k
    if k == 'empty':
        return sim.pick('emptyv', ('', '   ', '\n\n')), k
    return gen.random_unicode(sim), k


def gen_scenario(seed, cfg):
    sim = core.Sim(seed)
    mode = sim.pick('mode', ('inline', 'file', 'file'))
    as_json = sim.coin('json', 0.7)
    valid = sim.coin('valid', 0.6)
    if mode == 'inline':
        text = _valid_property(sim)
    else:
        text = '\n'.join(_valid_property(sim) for _ in range(sim.weighted('nprops', [(3, 1), (3, 2), (2, 3), (1, 6), (0.3, 10)])))
        if '\n' in text and sim.coin('dupprop', 0.15):
            # the same property twice, or a near-duplicate of it
            first = _valid_property(sim)
            text = first + '\n' + (first if sim.coin('exactdup', 0.4) else gen.sibling_text(sim, first.split('\n')[-1]))
        if sim.coin('crlf', 0.1):
            text = text.replace('\n', '\r\n')
    if sim.coin('ascii_edges', 0.15):
        # white space the grammar does know, at the edges
        text = sim.pick('lead', ('', '', '\n', '  ', '\t')) + text + sim.pick('trail', ('\n', '\n\n', ' ', '\t\n', '\f', ' \r\n'))
    content_kind = 'valid'
    if not valid:
        text, content_kind = _invalid_text(sim, text)
        if mode == 'inline' and (not text.strip() or text.lstrip().startswith('-')):
            text, content_kind = 'globally: no', 'syntax'
    path_kind = 'regular'
    raw_bytes = None
    decoy = None
    if mode == 'file':
        path_kind = sim.weighted('pathkind', [(7, 'regular'), (1, 'missing'), (1, 'directory'), (1.5, 'symlink'),
                                              (0.7, 'symlink_loop'), (0.8, 'bad_utf8'), (0.5, 'relative'),
                                              (0.5, 'dangling_symlink'), (0.5, 'symlink_to_dir'), (0.4, 'bom'),
                                              (0.8, 'dotdot_via_symlink'), (0.4, 'dotdot_plain'), (0.3, 'dotdot_via_missing')])
        if path_kind == 'bad_utf8':
            b = text.encode()
            pos = sim.choose('badpos', len(b) + 1)
            quotes = [i for i, ch in enumerate(b) if ch == 0x22]
            if len(quotes) >= 2 and sim.coin('in_string', 0.6):
                # a file saved in a legacy encoding: the undecodable byte sits inside a string literal
                qi = sim.choose('whichstr', len(quotes) // 2) * 2
                pos = sim.randint('strpos', quotes[qi] + 1, quotes[qi + 1])
            raw_bytes = list(b[:pos] + bytes([sim.pick('badbyte', (0xff, 0xc3, 0x80, 0xfe))]) + b[pos:])
        if path_kind == 'bom':
            raw_bytes = list(b'\xef\xbb\xbf' + text.encode())
        if path_kind == 'dotdot_via_symlink':
            decoy = sim.pick('decoy', (None, 'globally: no other_topic', 'globally: no', ''))
    if mode == 'inline' and '"' in text and sim.coin('surrogate', 0.08):
        # an argument that was not valid UTF-8 on the command line: argv is decoded with
        # surrogateescape, so the text holds a lone surrogate inside a string
        q = text.index('"')
        text = text[:q + 1] + '\udcff' + text[q + 1:]
    sc = {'seed': seed, 'mode': mode, 'json': as_json, 'text': text, 'content_kind': content_kind, 'decoy': decoy,
          'path_kind': path_kind, 'raw_bytes': raw_bytes,
          'out_buffer': sim.pick('outbuf', (0, 16, 64, 512, 8192, 8192)),
          'out_encoding': sim.weighted('outenc', [(5, ['utf-8', 'strict']), (1.5, ['ascii', 'strict']), (1, ['latin-1', 'strict']),
                                                   (1, ['cp1252', 'strict']), (1.5, ['utf-8', 'surrogateescape'])]),
          'stdout_tty': sim.coin('tty', 0.15),
          'argv_style': sim.weighted('argvstyle', [(5, 'short'), (1.5, 'long'), (1, 'eq'), (1, 'attached'), (1.5, 'after'), (1, 'dashdash')]),
          'locale_encoding': sim.weighted('locale', [(6, 'utf-8'), (1.5, 'ascii'), (1, 'latin-1'), (1, 'cp1252')]),
          'sweep_seed': sim.subseed('sweep')}
    # (drawn last, so that adding it left every earlier choice of every scenario as it was)
    if mode == 'file' and path_kind in ('regular', 'symlink', 'relative') and sim.coin('stat_type', 0.12):
        # the argument is a named pipe or a character device as far as stat() can tell
        sc['stat_type'] = sim.pick('stat_type_kind', ('fifo', 'fifo', 'chr'))
    sc['digest_gen'] = sim.digest()
    return sc


###############################################################################
# One process run
###############################################################################


def setup_files(sc, root):
    """Create the run's files; returns the argument to pass."""
    pk = sc['path_kind']
    p = os.path.join(root, 'spec.hpl')
    data = bytes(sc['raw_bytes']) if sc.get('raw_bytes') is not None else sc['text'].encode('utf-8', 'surrogateescape')
    if pk == 'dotdot_via_symlink':
        # deployment-style layout: `current` -> releases/v2, the file lives in releases/, the argument
        # is current/../spec.hpl (the OS follows the link first, THEN goes up); a decoy with other
        # content sits where a textual collapse of `..` would look
        os.makedirs(os.path.join(root, 'releases', 'v2'))
        os.symlink(os.path.join('releases', 'v2'), os.path.join(root, 'current'))
        with open(os.path.join(root, 'releases', 'spec.hpl'), 'wb') as f:
            f.write(data)
        decoy = sc.get('decoy')
        if decoy is not None:
            with open(p, 'wb') as f:
                f.write(decoy.encode('utf-8'))
        return os.path.join(root, 'current', '..', 'spec.hpl')
    if pk == 'dotdot_plain':
        os.mkdir(os.path.join(root, 'sub'))
        with open(p, 'wb') as f:
            f.write(data)
        return os.path.join(root, 'sub', '..', 'spec.hpl')
    if pk == 'dotdot_via_missing':
        with open(p, 'wb') as f:
            f.write(data)
        return os.path.join(root, 'nosuchdir', '..', 'spec.hpl')  # ENOENT for the OS
    if pk == 'dangling_symlink':
        os.symlink(os.path.join(root, 'gone.hpl'), p)
        return p
    if pk == 'symlink_to_dir':
        d = os.path.join(root, 'dir')
        os.mkdir(d)
        os.symlink(d, p)
        return p
    if pk in ('regular', 'bad_utf8', 'relative', 'bom'):
        with open(p, 'wb') as f:
            f.write(data)
        return p
    if pk == 'missing':
        return os.path.join(root, 'nope.hpl')
    if pk == 'directory':
        os.mkdir(p)
        return p
    if pk == 'symlink':
        real = os.path.join(root, 'real.hpl')
        with open(real, 'wb') as f:
            f.write(data)
        os.symlink(real, p)
        return p
    if pk == 'symlink_loop':
        a, b = os.path.join(root, 'a.hpl'), os.path.join(root, 'b.hpl')
        os.symlink(a, b)
        os.symlink(b, a)
        return a
    raise core.HarnessError('path kind %s' % pk)


def disk_text(path):
    """What a strict UTF-8 reader would get from the path right now (None if it cannot)."""
    try:
        with open(path, 'rb') as f:  # as the operating system resolves it (no textual normalisation)
            return f.read().decode('utf-8')
    except (OSError, UnicodeDecodeError):
        return None


_ROOT_RE = None


class RunOutcome:
    pass


def run_once(sc, faults):
    """Execute the CLI once under the given fault set.

    faults: {'fs': {idx: fault}, 'stdout': fault|None, 'stderr': fault|None, 'interrupt': {'k':..,'exc':..}|None}
    """
    from hpl import cli
    global _ROOT_RE
    root = tempfile.mkdtemp(prefix='hplsim_c19_')
    if _ROOT_RE is None:
        import re
        _ROOT_RE = re.compile(re.escape(os.path.join(tempfile.gettempdir(), 'hplsim_c19_')) + r'[A-Za-z0-9_]*')
    o = RunOutcome()
    try:
        # the same command line in the spellings argparse accepts: short / long options, `=` and
        # attached values, options after the positional argument, `--` before it
        style = sc.get('argv_style', 'short')
        opts = []
        if sc['mode'] == 'inline':
            opts.append('--property' if style in ('long', 'eq') else '-p')
        if sc['json']:
            opts += {'long': ['--output', 'json'], 'eq': ['--output=json'], 'attached': ['-ojson']}.get(style, ['-o', 'json'])
        cwd = None
        if sc['mode'] == 'inline':
            positional = sc['text']
            arg_path = None
        else:
            arg_path = setup_files(sc, root)
            if sc['path_kind'] == 'relative':
                cwd = os.getcwd()
                os.chdir(root)
                positional = 'spec.hpl'
            else:
                positional = arg_path
        if style == 'after':
            argv = [positional] + opts
        elif style == 'dashdash':
            argv = opts + ['--', positional]
        else:
            argv = opts + [positional]
        # the file the operating system designates for the argument (symbolic links followed first,
        # `..` applied to where they lead): identity, not spelling
        designated = None
        if arg_path is not None:
            try:
                st = os.stat(arg_path)
                designated = (st.st_dev, st.st_ino)
            except OSError:
                designated = None
        fs = simio.SimFS(root, faults.get('fs'), locale_encoding=sc.get('locale_encoding'))
        if sc.get('stat_type') and designated is not None:
            fs.file_type, fs.retype_id = sc['stat_type'], designated
        out_raw = simio.FaultyRaw('stdout', faults.get('stdout'))
        out_raw.tty = bool(sc.get('stdout_tty'))
        err_raw = simio.FaultyRaw('stderr', faults.get('stderr'))
        itr_spec = faults.get('interrupt')
        want_trace = itr_spec is not None or faults.get('count_events')
        itr = seams.Interrupter(itr_spec['k'] if itr_spec else None, itr_spec['exc'] if itr_spec else 'KeyboardInterrupt',
                                parts=('/hpl/', '/json/'))
        delivered = {'text': None, 'taken': False}
        orig_step = fs._step

        def step(opname, path):
            f = orig_step(opname, path)
            if opname == 'open' and not (f and f['kind'] == 'errno'):
                # what is on disk at the instant of the open (after a 'replace' fault below)
                delivered['pending'] = path
            return f
        fs._step = step

        class Wrap:
            def __enter__(self_w):
                fs.__enter__()
                if want_trace:
                    itr.__enter__()

            def __exit__(self_w, *exc):
                if want_trace:
                    itr.__exit__(*exc)
                fs.__exit__(*exc)
                return False

        try:
            res = simio.run_process(cli.main, argv, out_raw, err_raw, out_buffer=sc['out_buffer'], wrapper=Wrap,
                                    out_encoding=tuple(sc.get('out_encoding', ('utf-8', 'strict'))))
        finally:
            if cwd is not None:
                os.chdir(cwd)
        # the temporary directory's random name must not leak into anything compared or hashed
        # (an injected write fault can cut the output in the middle of the name, hence the pattern)
        res.stdout = _ROOT_RE.sub('<ROOT>', res.stdout)
        res.stderr = _ROOT_RE.sub('<ROOT>', res.stderr)
        o.res = res
        o.fs_calls = list(fs.calls)
        o.fs_fired = list(fs.fired)
        o.out_fired = out_raw.fired
        o.err_fired = err_raw.fired
        # a short write that was never followed by an error: the text layer of an unbuffered stream
        # (TextIOWrapper over a raw file) ignores the short count, so the program is never told
        o.silent_short_write = (out_raw.short_accepts > 0 and out_raw.fired == 0) or (err_raw.short_accepts > 0 and err_raw.fired == 0)
        o.out_writes = out_raw.write_calls
        o.err_writes = err_raw.write_calls
        o.out_bytes = res.out_bytes
        o.err_bytes = res.err_bytes
        o.itr_fired = itr.fired
        o.itr_site = itr.site
        o.line_events = itr.events
        # --- the text actually delivered to the program
        if sc['mode'] == 'inline':
            o.delivered = sc['text']
        else:
            read_ok = any(c[1] == 'read' for c in fs.calls) and not any(
                f[1] in ('read', 'open') and f[2]['kind'] == 'errno' for f in fs.fired)
            o.designated = designated
            o.opened_ids = list(fs.opened_ids)
            errno_fired = any(f[1] in ('read', 'open') and f[2]['kind'] == 'errno' for f in fs.fired)
            if not errno_fired and not any(c[1] == 'read' for c in fs.calls) and all(i == designated for i in fs.opened_ids):
                # no error injected at an open or read, and no read went through the seam (the program
                # never got that far, or it reads by a call the seam does not own - mmap, a FileIO
                # bound before the seam was installed): the text it was given is what the designated
                # file holds (after an injected replacement, if any). A seam that sees nothing must not
                # turn into a verdict.
                o.delivered = disk_text(arg_path)
            elif any(i != designated for i in fs.opened_ids):
                # the program read some other file than the one the operating system designates for
                # the argument: it is judged against the designated one (None if the OS cannot open it)
                o.delivered = disk_text(arg_path)
                o.wrong_file = True
            elif not read_ok:
                o.delivered = None
            else:
                # strict UTF-8 decoding of the bytes on disk decides whether there is a text at all;
                # the text itself is what read() handed to the program (newline translation and
                # injected truncation included)
                d = disk_text(arg_path)
                got = fs.delivered
                if fs.locale_used and isinstance(got, str):
                    # the program let the locale choose the decoding; a specification file is UTF-8
                    # text whatever the locale, so the text it was GIVEN is the UTF-8 reading of the
                    # bytes it received
                    try:
                        got = got.encode(fs.locale_encoding).decode('utf-8')
                    except UnicodeError:
                        got = None
                if d is not None and got is not None:
                    if isinstance(got, bytes):
                        try:
                            # bytes of a text file: UTF-8, line ends in any of the three conventions
                            got = got.decode('utf-8').replace('\r\n', '\n').replace('\r', '\n')
                        except UnicodeDecodeError:
                            got = None
                    d = got
                o.delivered = d
        return o
    finally:
        shutil.rmtree(root, ignore_errors=True)


###############################################################################
# Judging
###############################################################################


def any_fault_fired(o):
    return bool(o.fs_fired) or o.out_fired > 0 or o.err_fired > 0 or o.itr_fired


def judge(sc, o):
    """Returns None or (class, detail)."""
    res = o.res
    if getattr(o, 'silent_short_write', False):
        # data was lost below the program's reach (CPython's unbuffered text layer drops the tail of a
        # short write without raising): no implementation of the CLI could notice, so nothing is judged
        return None
    parses, ast = oracle_parse(sc['mode'], o.delivered)
    expected = mirror(ast) if parses else None
    ok_json, doc = strict_json(res.stdout)
    if ok_json and not getattr(res, 'stdout_is_utf8', True):
        ok_json, doc = False, None  # JSON text is UTF-8; anything else is not a valid document
        if res.status == 0 and sc['json']:
            return ('bad-json', 'exit status 0 but stdout is not UTF-8 encoded text, hence not a JSON document')
    faulted = any_fault_fired(o)
    # content-changing file faults (truncate/replace) are judged strictly against what was delivered
    only_content_faults = faulted and not o.itr_fired and o.out_fired == 0 and o.err_fired == 0 and all(
        f[2]['kind'] in ('truncate', 'replace') for f in o.fs_fired)
    strict = (not faulted) or only_content_faults
    if res.status == 0:
        if not parses:
            return ('exit0-on-failure', 'exit status 0 although the delivered argument does not parse')
        if sc['json']:
            if not ok_json:
                return ('bad-json', 'exit status 0 but stdout is not one strictly valid JSON document: %r' % res.stdout[:160])
            if doc != expected:
                return ('wrong-json', 'exit status 0 but the JSON document does not mirror the AST: %s' % _first_diff(expected, doc))
        else:
            if ok_json:
                return ('unexpected-json', 'no -o json, yet stdout is a JSON document')
    else:
        if ok_json:
            # data on stdout must never be wrong, whatever happened
            if not (parses and sc['json'] and doc == expected):
                return ('json-on-failure', 'exit status %d with a JSON document on stdout that %s' % (
                    res.status, 'does not mirror the AST' if parses and sc['json'] else 'should not exist'))
            if strict:
                return ('nonzero-on-success', 'exit status %d although the argument parses and the document was written' % res.status)
        if strict:
            if parses:
                return ('nonzero-on-success', 'exit status %d although the delivered argument parses (no fault fired)' % res.status)
            if res.status != 1:
                return ('exit-status', 'exit status %d instead of 1 for an argument that does not parse' % res.status)
            if not (res.stdout.strip() or res.stderr.strip()):
                return ('no-diagnostic', 'exit status 1 without any diagnostic')
    return None


def _first_diff(a, b, path='$'):
    if type(a) is not type(b):
        return '%s: %r vs %r' % (path, a, b) if not isinstance(a, (dict, list)) else '%s: type %s vs %s' % (path, type(a).__name__, type(b).__name__)
    if isinstance(a, dict):
        for k in sorted(set(a) | set(b)):
            if k not in a or k not in b:
                return '%s.%s: missing on one side' % (path, k)
            d = _first_diff(a[k], b[k], path + '.' + k)
            if d:
                return d
        return None
    if isinstance(a, list):
        if len(a) != len(b):
            return '%s: length %d vs %d' % (path, len(a), len(b))
        for i, (x, y) in enumerate(zip(a, b)):
            d = _first_diff(x, y, '%s[%d]' % (path, i))
            if d:
                return d
        return None
    return None if a == b else '%s: %r vs %r' % (path, a, b)


def handler_of(o):
    res = o.res
    if res.flush_failed:
        return 'shutdown-flush'
    if res.uncaught:
        return 'uncaught:' + res.uncaught
    if 'Syntax error:' in res.stderr:
        return 'syntax'
    if 'Aborted manually.' in res.stderr:
        return 'interrupt'
    if 'An unhandled exception crashed the application!' in res.stdout:
        return 'generic'
    if res.status == 0:
        return 'success'
    return 'other'


###############################################################################
# Fault plans
###############################################################################

FS_ERRNOS = ('ENOENT', 'EACCES', 'EISDIR', 'ELOOP', 'EIO', 'EMFILE')
STREAM_ERRNOS = ('EPIPE', 'ENOSPC', 'EIO')


def fault_plans(sc, base, cfg):
    """Single-fault sweep derived from the fault-free execution `base`, then seeded pairs."""
    sim = core.Sim(sc['sweep_seed'])
    plans = []
    # every file-system call the fault-free run made
    for idx, opname, _rel in base.fs_calls:
        for en in (sim.pick('fserr', FS_ERRNOS), sim.pick('fserr2', FS_ERRNOS)):
            plans.append({'fs': {str(idx): {'kind': 'errno', 'errno': en}}, 'label': 'fs:%s:%s' % (opname, en)})
        if opname == 'read' and base.delivered:
            n = len(base.delivered)
            for cut in {0, sim.randint('cut', 0, n), max(0, n - 1)}:
                plans.append({'fs': {str(idx): {'kind': 'truncate', 'n': cut}}, 'label': 'fs:read:truncate'})
        if opname == 'open':
            other = sim.pick('replacement', ('globally: no a', 'globally: no', '', 'globally: some b { x > NAN }',
                                             'globally: no a { foo(x) }'))
            plans.append({'fs': {str(idx): {'kind': 'replace', 'text': other}}, 'label': 'fs:open:replace'})
    # stdout / stderr at seeded byte offsets
    for stream, nbytes in (('stdout', base.out_bytes), ('stderr', base.err_bytes)):
        if nbytes == 0:
            # the stream is only written on other paths; arm it at offset 0 anyway (fires if touched)
            offs = [0]
        else:
            offs = sorted({0, sim.randint('off', 0, nbytes), max(0, nbytes - 1), nbytes - 2 if nbytes > 2 else 0})
        for off in offs:
            for persistent in (True, False):
                plans.append({stream: {'offset': off, 'errno': sim.pick('serr', STREAM_ERRNOS), 'persistent': persistent,
                                       'short': sim.coin('short', 0.4)},
                              'label': '%s:%s' % (stream, 'persistent' if persistent else 'transient')})
    # aborted execution
    if base.line_events > 0:
        n = base.line_events
        ks = {1, n, sim.randint('k', 1, n), sim.randint('k2', max(1, n - 60), n), sim.randint('k3', max(1, n - 400), n),
              max(1, n - sim.randint('k4', 1, 12))}
        for k in sorted(ks):
            plans.append({'interrupt': {'k': k, 'exc': sim.pick('iexc', ('KeyboardInterrupt', 'KeyboardInterrupt', 'MemoryError'))},
                          'label': 'interrupt'})
    # sample down, keep diversity
    if len(plans) > cfg['sweep_max']:
        perm = sim.permutation('sweeporder', len(plans))
        plans = [plans[i] for i in sorted(perm[:cfg['sweep_max']])]
    # pairs
    singles = list(plans)
    for _ in range(cfg['pairs']):
        if len(singles) < 2:
            break
        a = sim.pick('pa', singles)
        b = sim.pick('pb', singles)
        merged = {}
        for p in (a, b):
            for k, v in p.items():
                if k == 'label':
                    continue
                if k == 'fs':
                    merged.setdefault('fs', {}).update(v)
                else:
                    merged[k] = v
        merged['label'] = 'pair(%s + %s)' % (a['label'], b['label'])
        plans.append(merged)
    return plans


###############################################################################
# Scenario execution
###############################################################################


def execute(sc, cfg, stats=None, only_plan=None, trace=None):
    stats = stats if stats is not None else {}

    def count(k, n=1):
        stats[k] = stats.get(k, 0) + n

    violations = []
    if only_plan is not None:
        o = run_once(sc, only_plan)
        v = judge(sc, o)
        if v:
            violations.append(_mkviol(sc, only_plan, o, v))
        return violations
    base = run_once(sc, {'count_events': True})
    count('process_runs')
    count('fault_free_runs')
    if trace is not None:
        trace.append(('base', base.res.status, base.res.stdout, len(base.res.stderr), base.fs_calls, base.line_events))
    count('handler_' + handler_of(base))
    count('content_' + sc['content_kind'])
    count('path_' + sc['path_kind'])
    count('locale_' + str(sc.get('locale_encoding')))
    count('stdout_' + ('terminal' if sc.get('stdout_tty') else 'file_or_pipe'))
    count('argv_' + sc.get('argv_style', 'short'))
    count('stattype_' + str(sc.get('stat_type') or 'as_is'))
    count('mode_%s_%s' % (sc['mode'], 'json' if sc['json'] else 'plain'))
    v = judge(sc, base)
    if v:
        violations.append(_mkviol(sc, {}, base, v))
        return violations
    if base.res.status == 0 and sc['json']:
        count('json_documents_compared')
    for plan in fault_plans(sc, base, cfg):
        label = plan.get('label', '?')
        faults = {k: v for k, v in plan.items() if k != 'label'}
        o = run_once(sc, faults)
        count('process_runs')
        if trace is not None:
            trace.append((label, o.res.status, o.res.stdout, len(o.res.stderr), o.fs_fired, o.out_fired, o.err_fired, o.itr_site))
        fired = any_fault_fired(o)
        count('plans')
        if fired:
            count('plans_fired')
            count('fired_' + label.split('(')[0])
            for f in o.fs_fired:
                count('site_fs_%s_%s' % (f[1], f[2].get('errno', f[2]['kind'])))
            if o.out_fired:
                count('site_stdout_write')
            if o.err_fired:
                count('site_stderr_write')
            if o.itr_fired:
                count('site_interrupt')
        count('handler_' + handler_of(o))
        if getattr(o, 'silent_short_write', False):
            count('runs_not_judged_silent_short_write')
        v = judge(sc, o)
        if v:
            violations.append(_mkviol(sc, faults, o, v))
            break
    return violations


def _mkviol(sc, faults, o, v):
    return {'class': v[0], 'detail': v[1], 'faults': faults, 'status': o.res.status, 'stdout': o.res.stdout[:600],
            'stderr': o.res.stderr[:600], 'fs_trace': [list(c) for c in o.fs_calls], 'fired': {
                'fs': [[f[0], f[1], f[2]] for f in o.fs_fired], 'stdout': o.out_fired, 'stderr': o.err_fired,
                'interrupt': list(o.itr_site) if o.itr_site else None}}


def prep():
    """Deterministic template state: every run is forked off a process that has done exactly this."""
    build.parser('property')
    build.parser('specification')
    from hpl import cli  # noqa: F401


def one_run(seed, cfg):
    sc = gen_scenario(seed, cfg)
    stats = {}
    tr = []
    vs = execute(sc, cfg, stats, trace=tr)
    return {'vs': vs, 'stats': stats, 'digest_gen': sc['digest_gen'], 'digest_exec': core.derive(repr(tr)),
            'key': (sc['mode'], sc['json'], sc['text'], sc['path_kind']),
            'sample': {'seed': seed, 'argv_shape': ('-p ' if sc['mode'] == 'inline' else '') + ('-o json ' if sc['json'] else '') + ('TEXT' if sc['mode'] == 'inline' else 'PATH(%s)' % sc['path_kind']),
                       'content_kind': sc['content_kind'], 'text': sc['text'][:300]}}


def isolated_execute(sc, cfg, plan):
    return core.run_isolated(execute, sc, cfg, {}, plan)


def worker(job):
    cfg = job['cfg']
    stats = {}
    found = []
    digests = []
    samples = []
    texts = set()
    t0 = time.monotonic()
    prep()
    for idx in job['indices']:
        if time.monotonic() > job['deadline']:  # one deadline for the whole batch (CLOCK_MONOTONIC is system-wide)
            stats['runs_skipped_for_time'] = stats.get('runs_skipped_for_time', 0) + 1
            continue
        seed = core.derive(job['master'], PROP, idx)
        r = core.run_isolated(one_run, seed, cfg)
        core.merge_counts(stats, r['stats'])
        stats['runs'] = stats.get('runs', 0) + 1
        texts.add(r['key'])
        digests.append((idx, r['digest_gen'], r['digest_exec']))
        if len(samples) < 1:
            samples.append(dict(r['sample'], run_index=idx))
        for v in r['vs']:
            v['run_index'] = idx
            v['seed'] = seed
            found.append(v)
        if len(found) >= 10:
            break
    return {'stats': stats, 'violations': found, 'digests': digests, 'samples': samples, 'distinct': len(texts)}


###############################################################################
# Replay, minimise, real-process cross-check
###############################################################################


def make_replay(sc, v):
    return {'property': PROP, 'class': v['class'], 'detail': v['detail'], 'scenario': {k: sc[k] for k in sc if k != 'digest_gen'},
            'faults': v['faults'], 'observed': {k: v[k] for k in ('status', 'stdout', 'stderr', 'fs_trace', 'fired')},
            'pythonhashseed': os.environ.get('PYTHONHASHSEED'),
            'how_to_replay': '/venv/bin/python /verif/check.py C19 --replay <this file>'}


def replay(doc):
    if doc.get('real_process_case'):
        st, out, _f = real_case(doc['real_process_case'], doc['argv'], doc['unbuffered'])
        v = judge_real(doc['real_process_case'], doc['argv'], st, out)
        return {'class': v[0], 'detail': v[1]} if v else None
    sc = doc['scenario']
    prep()
    vs = isolated_execute(sc, TIERS['quick'], doc['faults'])
    return vs[0] if vs else None


def minimise(sc, v):
    """Drop faults one at a time while the same class persists."""
    faults = dict(v['faults'])
    cls = v['class']
    best = v
    for key in list(faults.keys()):
        if key == 'fs':
            for idx in list(faults['fs'].keys()):
                t = dict(faults)
                t['fs'] = {k: x for k, x in faults['fs'].items() if k != idx}
                if not t['fs']:
                    del t['fs']
                r = isolated_execute(sc, TIERS['quick'], t)
                if r and r[0]['class'] == cls:
                    faults, best = t, r[0]
        else:
            t = {k: x for k, x in faults.items() if k != key}
            r = isolated_execute(sc, TIERS['quick'], t)
            if r and r[0]['class'] == cls:
                faults, best = t, r[0]
    return best


REAL_CASES = (
    ('regular', ['-o', 'json', '-p', 'globally: no a { x > INF }']),
    ('devfull', ['-o', 'json', '-p', 'globally: no a { x > 1 }']),
    ('closedpipe', ['-o', 'json', '-p', 'globally: some b within 100 ms']),
    ('syntaxerr', ['-p', 'globally: no']),
    ('typeerr', ['-o', 'json', '-p', 'globally: no a { (x + True) > 1 }']),
    ('plain', ['-p', '# id: p1\nafter a as M: b { x > @M.x } causes (c or d) within 0.5 s']),
    ('nanliteral', ['-o', 'json', '-p', 'globally: some b { x in {NAN, 1} }']),
    # a UTF-8 file with a non-ASCII title, read by a process whose locale is not UTF-8
    ('clocale_file', ['-o', 'json', '# title: "caf\u00e9 \u2264 5"\nglobally: no a { x > 1 }']),
)


def real_case(name, argv, unbuffered):
    """Run one fixed case as a real `python -m hpl` process. Returns (exit status, stdout or None, fault)."""
    env = dict(os.environ)
    env['PYTHONPATH'] = core.SRC
    env.pop('PYTHONUNBUFFERED', None)
    if unbuffered:
        env['PYTHONUNBUFFERED'] = '1'
    cmd = [sys.executable, '-m', 'hpl'] + list(argv)
    if name == 'clocale_file':
        d = tempfile.mkdtemp(prefix='hplsim_c19_real_')
        try:
            fpath = os.path.join(d, 'spec.hpl')
            with open(fpath, 'w', encoding='utf-8') as f:
                f.write(argv[-1])
            env['LC_ALL'] = 'C'
            env['PYTHONUTF8'] = '0'
            env.pop('PYTHONIOENCODING', None)
            env['PYTHONCOERCECLOCALE'] = '0'
            p = subprocess.run([sys.executable, '-m', 'hpl'] + list(argv[:-1]) + [fpath], env=env, capture_output=True, timeout=120)
            return p.returncode, p.stdout.decode('utf-8', 'replace'), None
        finally:
            shutil.rmtree(d, ignore_errors=True)
    if name not in ('devfull', 'closedpipe'):
        p = subprocess.run(cmd, env=env, capture_output=True, text=True, timeout=120)
        return p.returncode, p.stdout, None
    if name == 'devfull':
        with open('/dev/full', 'w') as sink:
            p = subprocess.run(cmd, env=env, stdout=sink, stderr=subprocess.PIPE, text=True, timeout=120)
        return p.returncode, None, {'offset': 0, 'errno': 'ENOSPC', 'persistent': True}
    r, w = os.pipe()
    os.close(r)
    try:
        p = subprocess.run(cmd, env=env, stdout=w, stderr=subprocess.PIPE, text=True, timeout=120)
    finally:
        os.close(w)
    return p.returncode, None, {'offset': 0, 'errno': 'EPIPE', 'persistent': True}


def judge_real(name, argv, status, out):
    """The property, applied to a real process: None or (class, detail)."""
    mode = 'file' if name == 'clocale_file' else 'inline'
    text = argv[-1]
    parses, ast = oracle_parse(mode, text)
    if name in ('devfull', 'closedpipe'):
        # nothing can have reached the sink: success must not be reported
        if status == 0 and '-o' in argv:
            return ('exit0-on-failure', 'real process: exit status 0 although stdout (%s) accepted no byte of the document' % name)
        return None
    if parses != (status == 0):
        return ('exit-status', 'real process: exit status %d, argument %s' % (status, 'parses' if parses else 'does not parse'))
    if parses and '-o' in argv:
        ok, doc = strict_json(out)
        if not ok or doc != mirror(ast):
            return ('bad-json', 'real process: stdout is not the strict JSON mirror of the AST')
    return None


def real_process_crosscheck():
    """The process stub is a model of CPython start-up/shutdown; compare it with the real thing on
    fixed cases (regular sink, /dev/full, closed pipe, syntax error), block-buffered and unbuffered.
    The real processes are also judged by the property itself.
    Returns (stub problems, violations)."""
    from hpl import cli
    problems = []
    violations = []
    for unbuffered in (False, True):
        for name, argv in REAL_CASES:
            real_status, real_out, fault = real_case(name, argv, unbuffered)
            tag = '%s/%s' % (name, 'unbuffered' if unbuffered else 'buffered')
            v = judge_real(name, argv, real_status, real_out)
            if v is not None:
                violations.append({'class': v[0], 'detail': '%s [%s]' % (v[1], tag), 'real_case': name, 'argv': list(argv),
                                   'unbuffered': unbuffered, 'status': real_status})
                continue
            if name == 'clocale_file':
                continue  # judged by the property only; the stub's locale seam is exercised by the runs
            out_raw = simio.FaultyRaw('stdout', fault)
            err_raw = simio.FaultyRaw('stderr', None)
            res = simio.run_process(cli.main, list(argv), out_raw, err_raw, out_buffer=0 if unbuffered else 8192)
            if real_status != res.status:
                problems.append('%s: real exit status %d, stub %d' % (tag, real_status, res.status))
            if name not in ('devfull', 'closedpipe') and real_out != res.stdout:
                problems.append('%s: real stdout differs from the stub\'s' % tag)
    return problems, violations


###############################################################################
# Main
###############################################################################


def main(argv):
    ap = argparse.ArgumentParser(prog='check.py C19')
    ap.add_argument('--tier', default=core.tier_from_env())
    ap.add_argument('--replay')
    ap.add_argument('--runs', type=int)
    ap.add_argument('--offset', type=int, default=0)
    ap.add_argument('--digests', action='store_true')
    args = ap.parse_args(argv)
    master = core.master_seed()
    if args.replay:
        doc = core.load_replay(args.replay)
        v = replay(doc)
        if v is None:
            print('REPLAY-RESULT class=none (no violation reproduced)')
            return core.EXIT_OK
        print('REPLAY-RESULT class=%s' % v['class'])
        print('  ' + v['detail'])
        print('VIOLATION property=%s replay=%s' % (PROP, args.replay))
        return core.EXIT_VIOLATION

    t0 = time.monotonic()
    cfg = dict(TIERS[args.tier])
    if args.runs is not None:
        cfg['runs'] = args.runs
    scale = float(os.environ.get('HPLSIM_SCALE', '1'))
    nruns = max(16, int(cfg['runs'] * scale))
    nproc = int(os.environ.get('HPLSIM_NPROC', '0')) or min(16, os.cpu_count() or 1)
    indices = list(range(args.offset, args.offset + nruns))
    jobs = [{'cfg': cfg, 'indices': ch, 'master': master, 'deadline': time.monotonic() + cfg['wall']} for ch in core.chunk(indices, nproc * 3)]
    results = core.run_pool(worker, jobs, nproc=nproc, wall_cap=cfg['wall'] + 240)
    stats, found, samples, digests, distinct = {}, [], [], [], 0
    for r in results:
        core.merge_counts(stats, r['stats'])
        found.extend(r['violations'])
        samples.extend(r['samples'])
        digests.extend(r['digests'])
        distinct += r['distinct']
    if args.digests:
        for idx, d, e in sorted(digests):
            print('DIGEST %d %s %x' % (idx, d, e))
    harness_errors = []
    cross, real_violations = real_process_crosscheck()
    for pr in cross:
        harness_errors.append('process stub disagrees with a real `python -m hpl` process: ' + pr)

    known = core.load_known_findings(PROP)
    new, known_hits = [], []
    seen = set()
    limit = int(os.environ.get('HPLSIM_REPORT_MAX', '2'))
    per_class = {}
    for v in found:
        per_class.setdefault(v['class'], []).append(v)
    for cls, vs in sorted(per_class.items()):
        for v in vs[:limit]:
            prep()
            sc = gen_scenario(v['seed'], cfg)
            mv = minimise(sc, v) if v['faults'] else v
            key = (mv['class'], sc['text'], json.dumps(mv['faults'], sort_keys=True))
            if key in seen:
                continue
            seen.add(key)
            path = core.write_replay(PROP, '%s_%d' % (mv['class'], v['run_index']), make_replay(sc, mv))
            hit = next((k for k in known if k.get('class') == mv['class']), None)
            if hit is not None:
                known_hits.append(hit.get('what', mv['class']))
                continue
            if not os.environ.get('HPLSIM_NO_VERIFY'):
                ok, out = core.verify_replay_fresh(PROP, path, mv['class'])
                if not ok:
                    harness_errors.append('violation %s did not replay in a fresh interpreter (%s): %s' % (mv['class'], path, out[-300:]))
                    continue
            new.append((path, '%s: %s | argv mode=%s json=%s path=%s faults=%s' % (mv['class'], mv['detail'][:240], sc['mode'], sc['json'], sc['path_kind'], json.dumps(mv['faults'])[:200])))
    for rv in real_violations:
        doc = {'property': PROP, 'class': rv['class'], 'detail': rv['detail'], 'real_process_case': rv['real_case'], 'argv': rv['argv'],
               'unbuffered': rv['unbuffered'], 'observed': {'status': rv['status']}, 'pythonhashseed': os.environ.get('PYTHONHASHSEED'),
               'how_to_replay': '/venv/bin/python /verif/check.py C19 --replay <this file>'}
        path = core.write_replay(PROP, 'real_%s_%s' % (rv['real_case'], 'unbuffered' if rv['unbuffered'] else 'buffered'), doc)
        new.append((path, '%s: %s' % (rv['class'], rv['detail'])))
    # the same check, other run indices, under other interpreter configurations (python -O)
    slices = [] if args.digests else core.run_config_slices(PROP, args.tier, max(8, cfg['runs'] // 7), new, known_hits, harness_errors)
    wall = time.monotonic() - t0
    runs = stats.get('runs', 0)
    coverage = {
        'interpreter_configuration_slices': slices,
        'evaluations': int(stats.get('process_runs', 0)),
        'distinct_nontrivial': int(distinct),
        'rule': 'cases = simulated process executions of hpl.cli.main (one fault-free + a single-fault sweep over every I/O call, write offset and sampled line event of that execution + seeded fault pairs); '
                'distinct_nontrivial = distinct generated invocations (argv shape, content, path kind), each non-trivial because its full I/O trace is swept',
        'samples': samples[:4],
        'runs': runs,
        'runs_per_hour': int(runs / wall * 3600) if wall > 0 else 0,
        'process_runs_per_hour': int(stats.get('process_runs', 0) / wall * 3600) if wall > 0 else 0,
        'seeds': 'run i uses seed H(VERIF_SEED, "C19", i), i in [%d, %d)' % (args.offset, args.offset + runs),
        'fault_plans_executed': stats.get('plans', 0),
        'fault_plans_whose_fault_fired': stats.get('plans_fired', 0),
        'fault_kinds_fired': {k[6:]: v for k, v in sorted(stats.items()) if k.startswith('fired_')},
        'fault_sites_fired': {k[5:]: v for k, v in sorted(stats.items()) if k.startswith('site_')},
        'handlers_reached': {k[8:]: v for k, v in sorted(stats.items()) if k.startswith('handler_')},
        'content_kinds': {k[8:]: v for k, v in sorted(stats.items()) if k.startswith('content_')},
        'path_kinds': {k[5:]: v for k, v in sorted(stats.items()) if k.startswith('path_')},
        'invocations_by_file_type_reported_by_stat': {k[9:]: v for k, v in sorted(stats.items()) if k.startswith('stattype_')},
        'invocations_by_argv_spelling': {k[5:]: v for k, v in sorted(stats.items()) if k.startswith('argv_')},
        'invocations_by_stdout_kind': {k[7:]: v for k, v in sorted(stats.items()) if k.startswith('stdout_')},
        'invocations_by_locale_encoding': {k[7:]: v for k, v in sorted(stats.items()) if k.startswith('locale_')},
        'argv_shapes': {k[5:]: v for k, v in sorted(stats.items()) if k.startswith('mode_')},
        'json_documents_compared_fault_free': stats.get('json_documents_compared', 0),
        'runs_not_judged_because_a_short_write_was_silently_dropped_by_the_unbuffered_text_layer': stats.get('runs_not_judged_silent_short_write', 0),
        'real_process_crosscheck': {'cases': [c[0] for c in REAL_CASES], 'modes': ['block-buffered', 'unbuffered'], 'stub_disagreements': cross, 'violations_in_real_processes': len(real_violations)},
        'runs_skipped_for_time': stats.get('runs_skipped_for_time', 0),
        'pythonhashseed': os.environ.get('PYTHONHASHSEED'),
        'real_vs_stub': {'real': ['hpl.cli (main, parse_arguments, serializer)', 'hpl.parser', 'attrs.asdict', 'json', 'pathlib/io on real temporary files'],
                         'stub_or_model': ['process boundary (run_process, cross-checked against real subprocesses)', 'file-system fault injector (SimFS)', 'stream fault injector (FaultyRaw)', 'line-event interrupter']},
        'simulated_time': 'not applicable: the CLI has no timers',
    }
    assumptions = [
        'a fault may turn success into failure, never failure into success and never wrong data on stdout; runs in which no fault fired are judged by the strict oracle',
        'the oracle parses the text actually delivered (strict UTF-8 decoding of the bytes on disk at open time, truncated/replaced as injected)',
        'sys.stdout is None (descriptor closed before start) is not simulated',
        'a named pipe / character device argument is simulated through the type bits of stat() results only (open and read deliver the text, nothing blocks)',
        'a specification file is UTF-8 text whatever the locale (the locale encoding is a per-run choice of the file-system seam)',
        'invalid command-line options (argparse exit status 2) are outside the statement and not generated',
    ]
    core.write_evidence(PROP, args.tier, master, 'fault_enumeration', coverage, wall, len(new), assumptions)
    print('C19: %d invocations, %d process runs, %d fault plans (%d fired), %.1fs' % (runs, stats.get('process_runs', 0), stats.get('plans', 0), stats.get('plans_fired', 0), wall))
    return core.finish(PROP, new, known_hits, harness_errors)
