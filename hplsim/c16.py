"""C16 - ASTs are immutable values: no API call changes an existing tree (DESIGN 6).

A run = a pool of handles on shared AST nodes + a seeded history of API calls (some of which fail
half-way, some of which are aborted by an injected exception, some of which iterate sets in an
order the scheduler picks). After every call every pooled tree must be what it was.
"""

import argparse
import copy
import enum
import os
import time

import attrs

from hplsim import build, core, gen, seams

PROP = 'C16'

TIERS = {
    'quick': dict(runs=16000, ops=(3, 10), wall=300, abort_rate=0.06),
    'thorough': dict(runs=120000, ops=(3, 14), wall=2400, abort_rate=0.15),
}

###############################################################################
# Snapshots (independent of hpl's own __eq__/__repr__/iterate)
###############################################################################


class Snap:
    __slots__ = ('struct', 'meta')

    def __init__(self, struct, meta):
        self.struct = struct
        self.meta = meta


def snapshot(obj):
    meta = {}
    struct = _snap(obj, meta)
    return Snap(struct, meta)


def _snap(v, meta):
    cls = type(v)
    if attrs.has(cls):
        fields = []
        for a in attrs.fields(cls):
            x = getattr(v, a.name)
            if a.name == 'metadata' and isinstance(x, dict):
                meta[id(v)] = (id(x), copy.deepcopy(x))
                continue
            fields.append((a.name, _snap(x, meta)))
        return (cls.__name__, id(v), tuple(fields))
    if isinstance(v, (tuple, list)):
        return (cls.__name__, tuple(_snap(e, meta) for e in v))
    if isinstance(v, dict):
        return ('dict', tuple(sorted((repr(k), _snap(x, meta)) for k, x in v.items())))
    if isinstance(v, enum.Enum):
        return ('enum', cls.__name__, v._name_ if hasattr(v, '_name_') and v._name_ is not None else repr(v._value_))
    if isinstance(v, float):
        return ('float', repr(v))
    return (cls.__name__, repr(v))


def struct_noid(obj):
    """Structure of a tree without object identities and without metadata (own walk)."""
    def strip(x):
        if isinstance(x, tuple):
            if len(x) == 3 and isinstance(x[0], str) and isinstance(x[1], int) and isinstance(x[2], tuple):
                return (x[0], tuple((n, strip(v)) for n, v in x[2]))
            return tuple(strip(e) for e in x)
        return x
    return strip(_snap(obj, {}))


def diff_snap(a, b):
    """First difference between two snapshots, as a short string, or None."""
    d = _diff(a.struct, b.struct, 'root')
    if d:
        return d
    if set(a.meta) != set(b.meta):
        return 'set of nodes changed'
    for k in a.meta:
        if a.meta[k][1] != b.meta[k][1]:
            return 'metadata of a node changed: %r -> %r' % (a.meta[k][1], b.meta[k][1])
        if a.meta[k][0] != b.meta[k][0]:
            return 'metadata dict of a node was replaced by another dict object'
    return None


def _diff(a, b, path):
    if a == b:
        return None
    if type(a) is not type(b) or not isinstance(a, tuple) or len(a) != len(b):
        return '%s: %r -> %r' % (path, _short(a), _short(b))
    if a and isinstance(a[0], str) and len(a) == 3 and isinstance(a[2], tuple) and isinstance(a[1], int):
        # attrs node: (class, id, fields)
        if a[0] != b[0]:
            return '%s: class %s -> %s' % (path, a[0], b[0])
        if a[1] != b[1]:
            return '%s: child object replaced (%s)' % (path, a[0])
        for (na, va), (nb, vb) in zip(a[2], b[2]):
            d = _diff(va, vb, path + '.' + na)
            if d:
                return d
        return '%s: fields differ' % path
    for i, (x, y) in enumerate(zip(a, b)):
        d = _diff(x, y, path + '[%d]' % i if not isinstance(x, str) else path)
        if d:
            return d
    return '%s: %r -> %r' % (path, _short(a), _short(b))


def _short(x):
    s = repr(x)
    return s if len(s) < 120 else s[:117] + '...'


def nodes_of(obj, acc=None):
    """ids of all attrs AST nodes reachable from obj (own walk)."""
    if acc is None:
        acc = set()
    cls = type(obj)
    if attrs.has(cls):
        if id(obj) in acc:
            return acc
        acc.add(id(obj))
        for a in attrs.fields(cls):
            nodes_of(getattr(obj, a.name), acc)
    elif isinstance(obj, (tuple, list)):
        for e in obj:
            nodes_of(e, acc)
    return acc


###############################################################################
# Handles
###############################################################################


def observable(obj):
    """What a caller can see of a tree through its own printer and reference query."""
    try:
        text = str(obj)
    except Exception as e:  # printing is not what is judged here; remember how it behaved
        text = 'raises ' + type(e).__name__
    refs = None
    q = getattr(obj, 'external_references', None)
    if q is not None:
        try:
            refs = tuple(sorted(q()))
        except Exception as e:
            refs = 'raises ' + type(e).__name__
    return (text, refs)


class Handle:
    __slots__ = ('obj', 'snap', 'hash', 'twin', 'origin', 'kind', 'seen')

    def __init__(self, obj, twin, origin):
        self.obj = obj
        self.seen = observable(obj)
        self.snap = snapshot(obj)
        try:
            self.hash = hash(obj)
        except TypeError:
            self.hash = None
        self.twin = twin
        self.origin = origin
        self.kind = kind_of(obj)


def kind_of(obj):
    for k in ('expression', 'predicate', 'event', 'scope', 'pattern', 'property', 'specification'):
        if getattr(obj, 'is_' + k, False):
            return k
    return 'other'


def is_ast(x):
    from hpl.ast.base import HplAstObject
    return isinstance(x, HplAstObject)


###############################################################################
# Scenario generation: sources + literal op list
###############################################################################

OPS_ANY = ('str', 'repr', 'hash', 'eq', 'iterate', 'children', 'subtree', 'but_same', 'but_child', 'but_scalar', 'but_metadata', 'set_metadata', 'scribble_on_results', 'construct', 'small_queries')
OPS_EXPR = ('external_references', 'contains_reference', 'contains_self_reference', 'contains_definition',
            'is_fully_typed', 'cast', 'replace_self_reference', 'replace_var_reference', 'type_check_expr',
            'simplify', 'split_and', 'refactor_reference', 'replace_this_with_var', 'replace_var_with_this',
            'get_conjuncts', 'get_disjuncts', 'to_predicate', 'reshape_identity', 'reshape_cast', 'replace_custom')
OPS_PRED = ('external_references', 'contains_reference', 'contains_self_reference', 'is_fully_typed',
            'negate', 'join', 'pred_replace_var', 'pred_replace_self', 'simplify', 'split_and',
            'refactor_reference', 'replace_this_with_var', 'replace_var_with_this', 'get_conjuncts',
            'get_disjuncts', 'type_check_pred', 'condition')
OPS_EVENT = ('aliases', 'external_references', 'contains_reference', 'ev_replace_var', 'simple_events',
             'type_check_event')
OPS_PROP = ('canonical_form', 'type_check_property', 'events', 'is_fully_typed', 'sanity_check')
DATATYPES = ('BOOL', 'NUMBER', 'STRING', 'ARRAY', 'RANGE', 'SET', 'MESSAGE', 'PRIMITIVE', 'ITEM', 'COMPOUND', 'ANY')


def gen_scenario(seed, cfg):
    sim = core.Sim(seed)
    nsrc = sim.randint('nsrc', 2, 4)
    sources = []
    # a "project" run: mostly properties, identifiers from one small pool written with other capitals
    project = sim.coin('project', 0.15)
    for i in range(nsrc):
        k = sim.weighted('srckind', [(4, 'expr'), (3, 'pred'), (3, 'prop'), (0.7, 'spec')])
        if project and sim.coin('projprop', 0.7):
            k = 'prop'
        depth = sim.randint('depth', 1, 4)
        if k in ('expr', 'pred'):
            eg = gen.ExprGen(sim, max_depth=depth, allow_alias=sim.coin('al', 0.5), allow_quant=sim.coin('q', 0.4),
                             allow_api=False, trig_bias=sim.pick('bias', (0.1, 0.35, 0.6)))
            if k == 'expr' and sim.coin('num', 0.4):
                t = eg.num(0)
            else:
                t = eg.boolean(0)
                if k == 'pred' and sim.coin('vacuous_src', 0.25):
                    t = ('lit', 'bool', sim.pick('vac', ('True', 'False')))
            t = gen.sanitize_powers(t)
            sources.append({'kind': k, 'text': gen.render(t)})
        elif k == 'prop':
            pg = gen.PropGen(sim, max_depth=min(depth, 2))
            if project:
                pg.id_pool = gen.CASE_IDS
            sources.append({'kind': 'prop', 'text': gen.render_property(pg.prop())})
        else:
            pg = gen.PropGen(sim, max_depth=1)
            if project:
                pg.id_pool = gen.CASE_IDS
            sources.append({'kind': 'spec', 'text': '\n'.join(gen.render_property(pg.prop()) for _ in range(sim.randint('nprops', 1, 3)))})
    for src in sources:
        src['via'] = sim.weighted('via', [(8, 'parse'), (1, 'deepcopy'), (1, 'pickle')])
        if sim.coin('annotate', 0.5):
            src['annotate'] = (sim.rng.getrandbits(24) & sim.rng.getrandbits(24)) | 1  # the root and about a quarter of the nodes
            sim.note('annbits', src['annotate'])
    nops = sim.randint('nops', *cfg['ops'])
    ops = []
    for _ in range(nops):
        op = {'h': sim.choose('h', 64), 'h2': sim.choose('h2', 64), 'sel': sim.choose('sel', 1 << 16),
              'opsel': sim.choose('opsel', 1 << 16), 'dt': sim.pick('dt', DATATYPES),
              'key': sim.pick('mkey', ('id', 'note', 'k%d' % sim.choose('mk', 3))), 'val': 'v%d' % sim.choose('mval', 1000)}
        r = sim.rng.random()
        sim.note('faultdraw', r)
        if r < cfg['abort_rate']:
            op['abort'] = {'k': sim.randint('abortk', 1, 1200), 'exc': sim.pick('abortexc', ('SimInterrupt', 'KeyboardInterrupt', 'MemoryError'))}
        op['order'] = sim.weighted('order', [(3, {'kind': 'identity'}), (2, {'kind': 'reverse'}),
                                             (2, {'kind': 'shuffle', 'seed': sim.subseed('oshuf')})])
        ops.append(op)
    wmode = 'error' if sim.coin('warnings_error', 0.1) else 'default'
    # (drawn last, so that every earlier choice of every scenario stays as it was)
    any_typed = sim.coin('any_typed', 0.15)
    return {'seed': seed, 'sources': sources, 'ops': ops, 'warnings': wmode, 'any_typed': any_typed, 'digest_gen': sim.digest()}


###############################################################################
# Schema for type checks
###############################################################################


def make_constants_schema():
    """A schema in which some of the names the generated trees use are message constants."""
    from hpl import types as T
    num = T.FLOAT64
    inner = T.MessageType('InnerC', fields={'ok': T.BOOLEANS}, constants={'x': (num, 1.5)})
    fields = {'p': T.BOOLEANS, 'q': T.BOOLEANS, 'ok': T.BOOLEANS, 'x': num, 'txt': T.STRINGS,
              'xs': T.ArrayType('float64[]', subtype=num), 'bs': T.ArrayType('bool[3]', subtype=T.BOOLEANS, length=3), 'm': inner}
    return T.MessageType('MsgC', fields=fields, constants={'k': (T.INT32, 3), 'y': (num, 2.5)})


def make_partial_schema():
    """A schema that lacks some fields: checks against it fail half-way through a tree."""
    from hpl import types as T
    num = T.FLOAT64
    fields = {'p': T.BOOLEANS, 'ok': T.BOOLEANS, 'x': num, 'txt': T.STRINGS, 'xs': T.ArrayType('float64[2]', subtype=num, length=2),
              'bs': T.ArrayType('bool[]', subtype=T.BOOLEANS), 'q': num}
    return T.MessageType('Partial', fields=fields)


def make_schema():
    from hpl import types as T
    num = T.FLOAT64
    inner = T.MessageType('Inner', fields={'x': num, 'ok': T.BOOLEANS})
    fields = {'p': T.BOOLEANS, 'q': T.BOOLEANS, 'ok': T.BOOLEANS, 'x': num, 'y': num, 'k': T.INT32,
              'txt': T.STRINGS, 'xs': T.ArrayType('float64[]', subtype=num), 'bs': T.ArrayType('bool[3]', subtype=T.BOOLEANS, length=3),
              'm': inner, 'not_ready': T.BOOLEANS, 'is_on': T.BOOLEANS, 'linear_x': num, 'v2': T.UINT8, '_w': num, 'len': T.UINT32,
              'inside': num, 'frame_id': T.STRINGS, 'ranges': T.ArrayType('float32[]', subtype=T.FLOAT32)}
    msg = T.MessageType('Msg', fields=fields)
    return msg


###############################################################################
# Execution
###############################################################################


class Violation(Exception):
    def __init__(self, cls, detail):
        Exception.__init__(self, cls, detail)
        self.cls = cls
        self.detail = detail


def parse_source(src):
    """The source tree, obtained the way the scenario says: parsed, or a deep copy / an unpickled copy
    of the parsed tree (trees do not only come from the parser)."""
    obj = _parse_source(src)
    via = src.get('via', 'parse')
    if via == 'deepcopy':
        return copy.deepcopy(obj)
    if via == 'pickle':
        import pickle
        return pickle.loads(pickle.dumps(obj))
    return obj


def _parse_source(src):
    from hpl import parser as hp
    k = src['kind']
    if k == 'expr':
        return build.parser('expression').parse(src['text'])
    if k == 'pred':
        return build.parser('condition').parse(src['text'])
    if k == 'prop':
        return build.parser('property').parse(src['text'])
    return build.parser('specification').parse(src['text'])


def _quantifiers(obj):
    return [n for n in obj.iterate() if type(n).__name__ == 'HplQuantifier']


def applicable_ops(h):
    ops = list(OPS_ANY) + ['set_metadata'] * 2
    if h.kind in ('expression', 'predicate', 'event', 'property') and _quantifiers(h.obj):
        ops += ['quant_redomain', 'quant_recondition'] * 4
    if h.kind == 'expression':
        ops += OPS_EXPR * 2
    elif h.kind == 'predicate':
        ops += list(OPS_PRED) * 2 + ['join', 'negate'] * 3
    elif h.kind == 'event':
        ops += OPS_EVENT * 2
    elif h.kind == 'property':
        ops += OPS_PROP * 3
    return ops


def same_plain_value(old, new):
    """Another object that is the same value: identical AST children (nodes are never 'equal enough':
    they may carry other metadata), tuples of such, plain scalars of exactly the same type that
    compare and print equal."""
    if old is new:
        return True
    if is_ast(old) or is_ast(new):
        return False
    if isinstance(old, tuple) and isinstance(new, tuple):
        return type(old) is type(new) and len(old) == len(new) and all(same_plain_value(a, b) for a, b in zip(old, new))
    if type(old) is not type(new):
        return False
    if isinstance(old, (str, int, float, bool, bytes, enum.Enum)) or old is None:
        try:
            return old == new and repr(old) == repr(new)
        except Exception:
            return False
    return False


def would_hold_the_same(recv, fname, val):
    """Would a node built with this value hold, in that field, the same value the receiver holds?
    (`but(max_time=1)` on a pattern whose bound is 1.0: the field converter makes it 1.0 again.)
    'Unchanged' is judged by what the node would hold, not by what was passed."""
    try:
        fresh = fresh_construct(recv, {fname: val})
    except Exception:
        return False
    return same_plain_value(getattr(recv, fname), getattr(fresh, fname))


def child_field_names(obj):
    """Fields of obj that hold AST children (directly or in a tuple)."""
    out = []
    for a in attrs.fields(type(obj)):
        if not a.init or a.name == 'metadata':
            continue
        v = getattr(obj, a.name)
        if is_ast(v):
            out.append((a.name, 'one'))
        elif isinstance(v, tuple) and v and all(is_ast(e) for e in v):
            out.append((a.name, 'many'))
    return out


def do_op(name, h, h2, op, pool, schema, msg_types):
    """Perform the API call. Returns (result, note)."""
    from hpl import rewrite as rw
    from hpl.types import DataType
    obj = h.obj
    if name == 'str':
        return str(obj), None
    if name == 'repr':
        return repr(obj), None
    if name == 'hash':
        return hash(obj), None
    if name == 'eq':
        return (obj == h2.obj, obj != h2.obj), None
    if name == 'iterate':
        return list(obj.iterate()), None
    if name == 'children':
        return obj.children(), None
    if name == 'subtree':
        nodes = list(obj.iterate())
        if op['sel'] & 1:
            # bias towards node kinds whose constructors look at grandchildren
            special = [n for n in nodes if type(n).__name__ in ('HplQuantifier', 'HplSimpleEvent', 'HplPredicateExpression', 'HplFunctionCall', 'HplSet', 'HplRange')]
            if special:
                nodes = special
        return nodes[(op['sel'] >> 1) % len(nodes)], None
    if name == 'but_same':
        cf = [a.name for a in attrs.fields(type(obj)) if a.init and a.name != 'metadata']
        if not cf:
            return obj.but(), 'same'
        n = 1 + op['sel'] % len(cf)
        kw = {f: getattr(obj, f) for f in cf[:n]}
        return obj.but(**kw), 'same'
    if name == 'but_child':
        cf = child_field_names(obj)
        if not cf:
            return obj.but(), 'same'
        fname, arity = cf[op['sel'] % len(cf)]
        cur = getattr(obj, fname)
        cur0 = cur[0] if arity == 'many' else cur
        donors = [n for n in h2.obj.iterate()] + synth_donors()
        if (op['sel'] >> 2) & 3:
            # mostly offer a replacement of a compatible kind (the interesting copies succeed)
            good = [n for n in donors if compatible(cur0, n)]
            if good:
                donors = good
        donor = donors[(op['sel'] >> 4) % len(donors)]
        if arity == 'many':
            i = (op['sel'] >> 8) % len(cur)
            val = cur[:i] + (donor,) + cur[i + 1:]
        else:
            val = donor
        return obj.but(**{fname: val}), ('changed', fname, val)
    if name == 'construct':
        # a new parent built by a CONSTRUCTOR directly around trees that already exist
        from hpl.ast.specs import HplSpecification
        from hpl.ast.events import HplEventDisjunction, HplSimpleEvent
        from hpl.ast.predicates import predicate_from_expression
        from hpl.ast.expressions import HplUnaryOperator
        sel = op['sel']
        if h.kind == 'property':
            others = [x.obj for x in pool if x.kind == 'property' and x.obj is not obj]
            props = [obj]
            for j in range(1 + sel % 2):
                if others:
                    props.append(others[(sel >> (2 + 3 * j)) % len(others)])
            if (sel >> 1) & 1:
                props.reverse()
            return HplSpecification(tuple(props)), None
        if h.kind == 'specification':
            extra = [x.obj for x in pool if x.kind == 'property']
            props = tuple(obj.properties) + tuple(extra[(sel >> 2) % len(extra):][:1] if extra else ())
            return HplSpecification(props[::-1] if sel & 1 else props), None
        if h.kind == 'event':
            from hpl.ast.properties import HplPattern, HplScope
            other = h2.obj if h2.kind == 'event' else obj
            k = sel % 6
            if k == 0:
                return (HplEventDisjunction(obj, other) if sel & 8 else HplEventDisjunction(other, obj)), None
            if k == 1:
                return (HplScope.after(obj), HplScope.until(obj), HplScope.after_until(obj, other))[(sel >> 3) % 3], None
            bound = (float('inf'), 0.1, 2.5)[(sel >> 3) % 3]
            if k == 2:
                return (HplPattern.existence(obj, max_time=bound) if sel & 64 else HplPattern.absence(obj, max_time=bound)), None
            if k == 3:
                return HplPattern.response(obj, other, max_time=bound), None
            if k == 4:
                return HplPattern.requirement(obj, other, max_time=bound), None
            return HplPattern.prevention(obj, other, max_time=bound), None
        if h.kind in ('scope', 'pattern'):
            from hpl.ast.properties import HplProperty, HplScope
            scopes = [x.obj for x in pool if x.kind == 'scope'] or [HplScope.globally()]
            patterns = [x.obj for x in pool if x.kind == 'pattern']
            if not patterns:
                return obj.but(), 'same'
            sc_ = obj if h.kind == 'scope' else scopes[(sel >> 2) % len(scopes)]
            pt_ = obj if h.kind == 'pattern' else patterns[(sel >> 2) % len(patterns)]
            return HplProperty(sc_, pt_, metadata={'id': 'built_%d' % (sel % 7)} if sel & 1 else {}), None
        if h.kind == 'predicate':
            return HplSimpleEvent.publish(('a', '/cmd_vel', 'ns/topic')[sel % 3], predicate=obj, alias=(None, 'C1')[(sel >> 2) & 1]), None
        if h.kind == 'expression':
            from hpl.ast.expressions import HplBinaryOperator, HplQuantifier
            k = sel % 5
            if k == 0:
                return predicate_from_expression(obj), None
            if k == 1:
                return (HplUnaryOperator.minus(obj) if (sel >> 3) & 1 else HplUnaryOperator.negation(obj)), None
            other = h2.obj if h2.kind == 'expression' else obj
            if k == 2:
                ctor = (HplBinaryOperator.conjunction, HplBinaryOperator.disjunction, HplBinaryOperator.implication,
                        HplBinaryOperator.equivalence)[(sel >> 3) % 4]
                return ctor(obj, other), None
            if k == 3:
                ctor = (HplBinaryOperator.addition, HplBinaryOperator.subtraction, HplBinaryOperator.multiplication,
                        HplBinaryOperator.division, HplBinaryOperator.power)[(sel >> 3) % 5]
                return ctor(obj, other), None
            free = sorted(n.name for n in obj.iterate() if type(n).__name__ == 'HplVarReference')
            var = free[(sel >> 3) % len(free)] if free else 'v1'
            dom = synth_donors()[(sel >> 5) % 4]
            return (HplQuantifier.forall(var, dom, obj) if (sel >> 4) & 1 else HplQuantifier.exists(var, dom, obj)), None
        return obj.but(), 'same'
    if name == 'small_queries':
        # the rest of the read-only surface
        out = []
        for attr in ('base_object', 'to_set', 'check_some_self_references'):
            f = getattr(obj, attr, None)
            if callable(f):
                out.append(f())
        if hasattr(obj, 'can_be'):
            out.append([obj.can_be(t) for t in (DataType.BOOL, DataType.NUMBER, DataType.STRING, DataType.ARRAY)])
        for x in out:
            if isinstance(x, set):
                x.clear()  # the caller's own set
        return out, None
    if name == 'but_metadata':
        # the keyword the method itself looks for: the dict of another tree, of the receiver, or a fresh one
        k = op['sel'] % 3
        md = h2.obj.metadata if k == 0 else obj.metadata if k == 1 else {'origin': op['val']}
        return obj.but(metadata=md), ('metadata', md)
    if name == 'but_scalar':
        cands = scalar_candidates(obj)
        if not cands:
            return obj.but(), 'same'
        fname, val = cands[op['sel'] % len(cands)]
        if hasattr(obj, 'data_type') and (op['sel'] >> 13) == 0:
            # the stored type as a scalar field: widened (or set to a union) through the API; iterating
            # a Flag only yields its single-bit members, so the composite ones are offered here
            fname, val = 'data_type', (DataType.ANY, DataType.ANY, DataType.PRIMITIVE, DataType.ITEM)[(op['sel'] >> 11) & 3]
        return obj.but(**{fname: val}), ('changed', fname, val)
    if name == 'quant_redomain':
        qs = _quantifiers(obj)
        q = qs[op['sel'] % len(qs)]
        doms = [d for d in synth_donors() if d.data_type.can_be_set or d.data_type.can_be_range or d.data_type.can_be_array]
        doms += [n for n in h2.obj.iterate() if type(n).__name__ in ('HplSet', 'HplRange')]
        return q.but(domain=doms[(op['sel'] >> 5) % len(doms)]), None
    if name == 'quant_recondition':
        qs = _quantifiers(obj)
        q = qs[op['sel'] % len(qs)]
        others = [x for x in _quantifiers(h2.obj) if x.variable == q.variable] or qs
        return q.but(condition=others[(op['sel'] >> 5) % len(others)].condition), None
    if name == 'set_metadata':
        obj.metadata[op['key']] = op['val']
        return None, 'user_mutation'
    if name == 'scribble_on_results':
        # a caller may do what it likes with the containers a query hands out
        for q in ('external_references', 'aliases', 'children'):
            fn = getattr(obj, q, None)
            if fn is None:
                continue
            try:
                r = fn()
            except Exception:
                continue
            if isinstance(r, set):
                r.add('scribble')
                r.discard(next(iter(r)))
            elif isinstance(r, list):
                r.append('scribble')
                r.reverse()
            elif isinstance(r, dict):
                r['scribble'] = 1
        its = list(obj.iterate())
        its.reverse()
        return None, None
    if name == 'reshape_identity':
        return obj.reshape(lambda e: e, deep=bool(op['sel'] & 1)), None
    if name == 'reshape_cast':
        from hpl.types import DataType as _DT
        t = _DT[op['dt']]

        def f(e):
            try:
                return e.cast(t)
            except TypeError:
                return e
        return obj.reshape(f, deep=bool(op['sel'] & 1)), None
    if name == 'replace_custom':
        other = _an_expr(h2, op)
        k = (op['sel'] >> 3) % 7

        def test(e, k=k):
            return (hash(str(e)) + k) % 7 == 0
        return obj.replace(test, other), None
    if name == 'external_references':
        return obj.external_references(), None
    if name == 'contains_reference':
        return obj.contains_reference('A'), None
    if name == 'contains_self_reference':
        return obj.contains_self_reference(), None
    if name == 'contains_definition':
        return obj.contains_definition('v1'), None
    if name == 'is_fully_typed':
        return obj.is_fully_typed(), None
    if name == 'cast':
        return obj.cast(DataType[op['dt']]), None
    if name == 'replace_self_reference':
        return obj.replace_self_reference(_an_expr(h2, op)), None
    if name == 'replace_var_reference':
        return obj.replace_var_reference(_an_alias(obj, op), _an_expr(h2, op)), None
    if name in ('type_check_expr', 'type_check_pred'):
        sch = (schema, schema, make_constants_schema(), make_partial_schema())[op['sel'] & 3]
        other = schema if op['sel'] & 4 else sch
        return obj.type_check_references(sch, {'A': other, 'Msg_1': other}), None
    if name == 'simplify':
        return rw.simplify(obj), None
    if name == 'split_and':
        return rw.split_and(obj), None
    if name == 'refactor_reference':
        return rw.refactor_reference(obj, 'A'), None
    if name == 'replace_this_with_var':
        return rw.replace_this_with_var(obj, 'B'), None
    if name == 'replace_var_with_this':
        return rw.replace_var_with_this(obj, 'A'), None
    if name == 'get_conjuncts':
        return rw.get_conjuncts(obj), None
    if name == 'get_disjuncts':
        return rw.get_disjuncts(obj), None
    if name == 'to_predicate':
        from hpl.ast.predicates import predicate_from_expression
        return predicate_from_expression(obj), None
    if name == 'negate':
        return obj.negate(), None
    if name == 'join':
        # the argument is an existing tree whenever the pool has one (vacuous predicates included)
        others = []
        for x in pool:
            if x.kind == 'predicate':
                others.append(x.obj)
            elif x.kind in ('event', 'property', 'specification', 'scope', 'pattern'):
                others.extend(n for n in x.obj.iterate() if getattr(n, 'is_predicate', False))
        vac = [o for o in others if o.is_vacuous]
        if vac and (op['sel'] & 1) == 0:
            others = vac
        others = others or [obj]
        return obj.join(others[(op['sel'] >> 2) % len(others)]), None
    if name == 'pred_replace_var':
        return obj.replace_var_reference(_an_alias(obj, op), _an_expr(h2, op)), None
    if name == 'pred_replace_self':
        return obj.replace_self_reference(_an_expr(h2, op)), None
    if name == 'condition':
        return obj.condition, None
    if name == 'aliases':
        return obj.aliases(), None
    if name == 'ev_replace_var':
        return obj.replace_var_reference('A', _an_expr(h2, op)), None
    if name == 'simple_events':
        return list(obj.simple_events()), None
    if name == 'type_check_event':
        return obj.type_check_references(_msg_types_variant(msg_types, op)), None
    if name == 'canonical_form':
        return rw.canonical_form(obj), None
    if name == 'type_check_property':
        return obj.type_check_references(_msg_types_variant(msg_types, op)), None
    if name == 'events':
        return list(obj.events()), None
    if name == 'sanity_check':
        return obj.sanity_check(), None
    raise core.HarnessError('unknown op %s' % name)


_SYNTH_TEXTS = ('[1 to 3]', '![0 to 2]', '{1, 2}', '{0}', '2', '0', 'True', '"a"', 'xs', 'x', '@B.x', '(x + 1)', '(p and q)', '(not p)')
_synth = []


def synth_donors():
    """Freshly parsed small expressions offered as replacement children (literal ranges, sets, ...)."""
    if not _synth:
        for t in _SYNTH_TEXTS:
            _synth.append(build.parser('expression').parse(t))
    return list(_synth)


def _msg_types_variant(msg_types, op):
    if (op['sel'] & 7) == 5:
        # a type map as an introspection tool would produce it: topic names spelled with the leading
        # slash toggled (`cmd_vel` <-> `/cmd_vel`), so that direct look-ups of the spec's names fail
        out = {}
        for k, v in msg_types.items():
            out[k[1:] if k.startswith('/') else '/' + k] = v
        return out
    if (op['sel'] & 3) in (1, 2):
        return msg_types
    part = make_partial_schema() if op['sel'] & 3 else make_constants_schema()
    out = dict(msg_types)
    keys = sorted(out)
    for i, k in enumerate(keys):
        if (op['sel'] >> 3) + i & 1:
            out[k] = part
    return out


SCALAR_VALUES = {
    str: ('zz', 'a', 'M9', '@B', '"s"', '1'),
    float: (0.0, 0.5, 2.0, float('inf')),
    int: (0, 1, 2),
    bool: (True, False),
}


def scalar_candidates(obj):
    """(field name, new value) pairs for init fields that do not hold AST nodes."""
    import enum as _enum
    out = []
    for a in attrs.fields(type(obj)):
        if not a.init or a.name == 'metadata':
            continue
        v = getattr(obj, a.name)
        if is_ast(v) or (isinstance(v, tuple) and v and all(is_ast(e) for e in v)):
            continue
        if isinstance(v, _enum.Enum):
            out += [(a.name, m) for m in type(v) if m is not v]
        elif isinstance(v, bool):
            out += [(a.name, not v), (a.name, 1 if v else 0)]
        elif isinstance(v, (int, float)):
            out += [(a.name, x) for x in SCALAR_VALUES[float] + SCALAR_VALUES[int] if x != v or type(x) is not type(v)]
            out += [(a.name, True)]
        elif isinstance(v, str):
            out += [(a.name, x) for x in SCALAR_VALUES[str] if x != v]
            out += [(a.name, str(v))]  # an equal but (for lark tokens) not identical string
        elif v is None:
            out += [(a.name, 'N1'), (a.name, None)]
    return out


def _an_alias(obj, op):
    try:
        refs = sorted(obj.external_references())
    except Exception:
        refs = []
    if refs and (op['sel'] >> 6) & 3:
        return refs[(op['sel'] >> 9) % len(refs)]
    return 'A'


def compatible(cur, new):
    from hpl.ast.expressions import HplExpression
    from hpl.ast.events import HplEvent
    from hpl.ast.predicates import HplPredicate
    if isinstance(cur, HplExpression):
        return isinstance(new, HplExpression) and bool(cur.data_type & new.data_type)
    for base in (HplEvent, HplPredicate):
        if isinstance(cur, base):
            return isinstance(new, base)
    return type(cur) is type(new)


def _an_expr(h2, op):
    from hpl.ast.expressions import HplExpression, HplThisMessage, HplVarReference
    cands = [n for n in h2.obj.iterate() if isinstance(n, HplExpression)]
    if not cands:
        return HplVarReference('@B') if op['sel'] & 1 else HplThisMessage()
    return cands[(op['sel'] >> 3) % len(cands)]


def collect_ast(result, acc, depth=0):
    """AST objects in an operation's result (to be pooled)."""
    if is_ast(result):
        acc.append(result)
    elif isinstance(result, (tuple, list)) and depth < 3:
        for e in result:
            collect_ast(e, acc, depth + 1)
    return acc


def fresh_construct(obj, changes):
    """A fresh construction of type(obj) from private copies of the field values."""
    kw = {}
    for a in attrs.fields(type(obj)):
        if not a.init:
            continue
        v = changes[a.name] if a.name in changes else getattr(obj, a.name)
        kw[a.alias if hasattr(a, 'alias') and a.alias else a.name] = copy.deepcopy(v)
    return type(obj)(**kw)


def execute(sc, stats=None, upto=None, trace=None):
    """Run a scenario. Returns (violation dict or None)."""
    stats = stats if stats is not None else {}

    def count(k, n=1):
        stats[k] = stats.get(k, 0) + n

    schema = make_schema()
    msg_types = {t: schema for t in gen.TOPICS + gen.ROS_TOPICS}
    msg_types.update({'A': schema, 'Msg_1': schema})
    pool = []
    resolved = []
    _RESOLVED[0] = resolved
    try:
        for si, src in enumerate(sc['sources']):
            obj = parse_source(src)
            twin = parse_source(src)
            # user code may annotate nodes (legal); done before the first snapshot so that trees
            # with non-empty metadata on inner nodes are the norm, not the exception
            ann = src.get('annotate')
            if ann:
                for ni, node in enumerate(obj.iterate()):
                    if (ann >> (ni % 24)) & 1:
                        node.metadata['note'] = 'n%d.%d' % (si, ni)
            pool.append(Handle(obj, twin, 'parse:' + src['kind']))
    except Exception as e:
        count('source_rejected')
        return None
    if sc.get('any_typed'):
        # trees also come from code that passes data_type= itself: a reference whose stored type is
        # the widest there is (accepted by the constructors), and a tree built around it
        from hpl.types import DataType as _DT
        for h in list(pool):
            leaf = next((n for n in h.obj.iterate() if type(n).__name__ in ('HplVarReference', 'HplFieldAccess')), None)
            if leaf is None:
                continue
            try:
                wide = leaf.but(data_type=_DT.ANY)
                pool.append(Handle(wide, copy.deepcopy(wide), 'api:any_typed_reference'))
                count('any_typed_references')
            except Exception:
                pass
            break
    # aliases bound by events must map to a schema for property-level checks
    for h in pool:
        if h.kind in ('property', 'specification'):
            for n in h.obj.iterate():
                if getattr(n, 'is_event', False) and getattr(n, 'is_simple_event', False) and n.alias:
                    msg_types[n.alias] = schema
    ops = sc['ops'] if upto is None else sc['ops'][:upto]
    for step, op in enumerate(ops):
        h = pool[op['h'] % len(pool)]
        h2 = pool[op['h2'] % len(pool)]
        names = applicable_ops(h)
        name = op.get('name') or names[op['opsel'] % len(names)]
        if name not in names:
            name = names[op['opsel'] % len(names)]
        count('ops')
        count('op_' + name)
        resolved.append(name)
        shared = len(nodes_of(h.obj) & set().union(*[nodes_of(x.obj) for x in pool if x is not h])) > 0 if len(pool) > 1 else False
        if shared:
            count('ops_on_shared_nodes')
        stats.setdefault('_triples', set()).add((name, type(h.obj).__name__, bool(shared)))
        result = note = None
        failed = None
        policy = seams.OrderPolicy.from_json(op.get('order', {'kind': 'identity'}), script=op.get('perm_script'))
        abort = op.get('abort')
        itr = None
        try:
            with seams.simset_installed(policy), core.warnings_filter(sc.get('warnings')):
                if abort and name != 'set_metadata':
                    itr = seams.Interrupter(abort['k'], abort['exc'])
                    with itr:
                        result, note = do_op(name, h, h2, op, pool, schema, msg_types)
                else:
                    result, note = do_op(name, h, h2, op, pool, schema, msg_types)
        except core.HarnessError:
            raise
        except BaseException as e:  # the call failed or was aborted: it has still ended
            failed = e
            if isinstance(e, (KeyboardInterrupt, seams.SimInterrupt, MemoryError)) and itr is not None and itr.fired:
                count('aborted_calls')
                count('abort_' + type(e).__name__)
            elif isinstance(e, (KeyboardInterrupt, SystemExit, GeneratorExit)):
                raise
            else:
                count('failed_calls')
                count('fail_' + name)
        if policy.observed:
            count('set_iterations', len(policy.observed))
        op_desc = {'step': step, 'op': name, 'receiver': type(h.obj).__name__, 'receiver_origin': h.origin,
                   'failed': type(failed).__name__ if failed is not None else None,
                   'abort_site': list(itr.site) if itr is not None and itr.site else None,
                   'perms_observed': [list(p) for _n, p in policy.observed]}
        if trace is not None:
            trace.append((step, name, op_desc['receiver'], op_desc['failed'], op_desc['abort_site'], op_desc['perms_observed']))
        # --- expected effect of the one legal mutation
        if note == 'user_mutation' and failed is None:
            key = id(h.obj)
            for x in pool:
                if key in x.snap.meta:
                    x.snap.meta[key][1][op['key']] = op['val']
        # --- invariant 1 + 2: every pooled tree is what it was
        for x in pool:
            now = snapshot(x.obj)
            d = diff_snap(x.snap, now)
            if d is not None:
                return _viol('mutated', 'after %s on %s: a pooled %s (%s) changed: %s' % (name, type(h.obj).__name__, type(x.obj).__name__, x.origin, d), op_desc, sc, step)
            if observable(x.obj) != x.seen:
                return _viol('observable', 'after %s: printed form / external references of a pooled %s changed: %r -> %r' % (
                    name, type(x.obj).__name__, x.seen, observable(x.obj)), op_desc, sc, step)
            if x.hash is not None:
                try:
                    hv = hash(x.obj)
                except TypeError:
                    hv = None
                if hv != x.hash:
                    return _viol('hash', 'after %s: hash of a pooled %s changed' % (name, type(x.obj).__name__), op_desc, sc, step)
            if x.twin is not None:
                if not (x.obj == x.twin) or (x.obj != x.twin):
                    return _viol('equality', 'after %s: a pooled %s no longer equals its untouched twin' % (name, type(x.obj).__name__), op_desc, sc, step)
                if x.hash is not None and hash(x.twin) != x.hash:
                    return _viol('hash', 'after %s: hash differs from the untouched twin' % name, op_desc, sc, step)
        # --- invariant 3: but()
        if failed is None and name == 'but_metadata':
            _tag, md = note
            if result is not h.obj:
                if result.metadata is md or any(result.metadata is x.obj.metadata for x in pool):
                    return _viol('but-metadata', 'but(metadata=<dict of an existing tree>) made the copy share that dict', op_desc, sc, step)
                if result.metadata != md:
                    return _viol('but-metadata', 'but(metadata=...) result does not carry the given metadata', op_desc, sc, step)
                count('but_metadata_checked')
        if failed is None and name in ('but_same', 'but_child', 'but_scalar'):
            recv = h.obj
            if note == 'same':
                if result is not recv:
                    return _viol('but-identity', 'but() with unchanged values returned a different object (%s)' % type(recv).__name__, op_desc, sc, step)
            else:
                _tag, fname, val = note
                if getattr(recv, fname) is val:
                    if result is not recv:
                        return _viol('but-identity', 'but(%s=<same object>) returned a different object' % fname, op_desc, sc, step)
                elif result is recv and (same_plain_value(getattr(recv, fname), val) or would_hold_the_same(recv, fname, val)):
                    # another object, the same value (a tuple rebuilt around the very same children, an
                    # equal string / number of the same type): "unchanged values" by any reading that
                    # looks at values, a change by one that looks at identity. Both answers are
                    # admissible; the receiver needs no further check, a copy is checked below.
                    count('but_same_value_other_object_returned_receiver')
                else:
                    if result is recv:
                        return _viol('but-copy', 'but(%s=<other value>) returned the receiver itself' % fname, op_desc, sc, step)
                    try:
                        fresh = fresh_construct(recv, {fname: val})
                    except Exception as e:
                        fresh = None
                        count('fresh_construct_failed')
                    if fresh is not None:
                        if struct_noid(result) != struct_noid(fresh):
                            return _viol('but-value', 'but(%s=...) differs structurally from a fresh construction with those fields (%s): %s' % (
                                fname, type(recv).__name__, _diff(struct_noid(result), struct_noid(fresh), 'root')), op_desc, sc, step)
                        if not (result == fresh) or hash(result) != hash(fresh):
                            return _viol('but-value', 'but(%s=...) is not equal/hash-equal to a fresh construction with those fields (%s)' % (fname, type(recv).__name__), op_desc, sc, step)
                    if result.metadata != recv.metadata:
                        return _viol('but-metadata', 'but() result does not carry the receiver\'s metadata', op_desc, sc, step)
                    if result.metadata is recv.metadata:
                        return _viol('but-metadata', 'but() result shares the receiver\'s metadata dict', op_desc, sc, step)
                    count('but_copies_checked')
        # --- pool the results (bounded)
        if failed is None:
            new = collect_ast(result, [])
            for r in new[:3]:
                if len(pool) >= 12:
                    break
                if any(r is x.obj for x in pool):
                    continue
                try:
                    twin = copy.deepcopy(r)
                except Exception:
                    twin = None
                pool.append(Handle(r, twin, 'result:' + name))
                count('handles_from_results')
    count('handles_at_end', len(pool))
    return None


_RESOLVED = [None]


def _viol(cls, detail, op_desc, sc, step):
    # the operation names as resolved in this execution: written into the replay file so that
    # it does not depend on how selectors are mapped to operations
    return {'class': cls, 'detail': detail, 'op': op_desc, 'step': step, 'resolved_ops': list(_RESOLVED[0] or ())}


###############################################################################
# Worker, minimisation, replay
###############################################################################


def prep():
    """Deterministic template state: every run is forked off a process that has done exactly this."""
    for k in ('expression', 'condition', 'property', 'specification'):
        build.parser(k)
    import hpl.rewrite  # noqa: F401  (typeguard instruments it at import time: ~0.5 s, once, in the template)
    import hpl.types  # noqa: F401
    import hpl.ast.predicates  # noqa: F401
    make_schema()


def one_run(seed, cfg):
    sc = gen_scenario(seed, cfg)
    local = {}
    tr = []
    v = execute(sc, local, trace=tr)
    return {'v': v, 'stats': local, 'digest_gen': sc['digest_gen'], 'digest_exec': core.derive(repr(tr)),
            'sample': {'seed': seed, 'sources': sc['sources'],
                       'ops': [{k: o[k] for k in ('h', 'h2', 'sel', 'opsel', 'dt', 'abort', 'order') if k in o} for o in sc['ops'][:4]]}}


def isolated_execute(sc):
    return core.run_isolated(execute, sc, {})


def worker(job):
    cfg = job['cfg']
    stats = {}
    found = []
    digests = []
    samples = []
    shapes = set()
    triples = set()
    t0 = time.monotonic()
    prep()
    for idx in job['indices']:
        if time.monotonic() > job['deadline']:  # one deadline for the whole batch (CLOCK_MONOTONIC is system-wide)
            stats['runs_skipped_for_time'] = stats.get('runs_skipped_for_time', 0) + 1
            continue
        seed = core.derive(job['master'], PROP, idx)
        r = core.run_isolated(one_run, seed, cfg)
        local = r['stats']
        triples.update(local.pop('_triples', ()))
        core.merge_counts(stats, local)
        stats['runs'] = stats.get('runs', 0) + 1
        digests.append((idx, r['digest_gen'], r['digest_exec']))
        for k in local:
            if k.startswith('op_'):
                shapes.add(k)
        if len(samples) < 1:
            samples.append(dict(r['sample'], run_index=idx))
        v = r['v']
        if v is not None:
            v['run_index'] = idx
            v['seed'] = seed
            found.append(v)
            if len(found) >= 25:
                break
    return {'stats': stats, 'violations': found, 'digests': digests, 'samples': samples, 'shapes': sorted(shapes), 'triples': sorted(triples)}


def resolve_names(sc):
    """Make op names literal (so that dropping steps does not re-map later steps' operations)."""
    # executing once with name recording
    out = copy.deepcopy(sc)
    return out


def minimise(sc, v, budget=160):
    cls = v['class']
    ops = sc['ops'][:v['step'] + 1]

    def fails(sub):
        trial = dict(sc)
        trial['ops'] = sub
        try:
            r = isolated_execute(trial)
        except Exception:
            return False
        return r is not None and r['class'] == cls

    if not fails(ops):
        return sc, v
    small = core.ddmin(ops, fails, budget=budget)
    # drop faults where possible
    for i in range(len(small)):
        if 'abort' in small[i]:
            t = [dict(o) for o in small]
            del t[i]['abort']
            if fails(t):
                small = t
    # fewer sources
    trial = dict(sc)
    trial['ops'] = small
    r = isolated_execute(trial)
    return trial, r


def make_replay(sc, v):
    ops = [dict(o) for o in sc['ops']]
    for o, nm in zip(ops, v.get('resolved_ops') or ()):
        o['name'] = nm
    sc = dict(sc, ops=ops)
    return {'property': PROP, 'class': v['class'], 'detail': v['detail'], 'failing_op': v['op'], 'step': v['step'],
            'sources': sc['sources'], 'ops': sc['ops'], 'seed': sc.get('seed'), 'warnings_filter': sc.get('warnings', 'default'), 'any_typed': bool(sc.get('any_typed')),
            'pythonhashseed': os.environ.get('PYTHONHASHSEED'),
            'how_to_replay': '/venv/bin/python /verif/check.py C16 --replay <this file>'}


def replay(doc):
    sc = {'sources': doc['sources'], 'ops': doc['ops'], 'warnings': doc.get('warnings_filter', 'default'), 'any_typed': doc.get('any_typed', False)}
    prep()
    return isolated_execute(sc)


def signature(v):
    """(operation, receiver class) - used to match known findings."""
    return '%s|%s|%s' % (v['class'], v['op']['op'], v['op']['receiver'])


def main(argv):
    ap = argparse.ArgumentParser(prog='check.py C16')
    ap.add_argument('--tier', default=core.tier_from_env())
    ap.add_argument('--replay')
    ap.add_argument('--runs', type=int)
    ap.add_argument('--offset', type=int, default=0)
    ap.add_argument('--digests', action='store_true')
    args = ap.parse_args(argv)
    master = core.master_seed()
    if args.replay:
        doc = core.load_replay(args.replay)
        v = replay(doc)
        if v is None:
            print('REPLAY-RESULT class=none (no violation reproduced)')
            return core.EXIT_OK
        print('REPLAY-RESULT class=%s' % v['class'])
        print('  ' + v['detail'])
        print('VIOLATION property=%s replay=%s' % (PROP, args.replay))
        return core.EXIT_VIOLATION

    t0 = time.monotonic()
    cfg = dict(TIERS[args.tier])
    if args.runs is not None:
        cfg['runs'] = args.runs
    scale = float(os.environ.get('HPLSIM_SCALE', '1'))
    nruns = max(16, int(cfg['runs'] * scale))
    nproc = int(os.environ.get('HPLSIM_NPROC', '0')) or min(16, os.cpu_count() or 1)
    indices = list(range(args.offset, args.offset + nruns))
    jobs = [{'cfg': cfg, 'indices': ch, 'master': master, 'deadline': time.monotonic() + cfg['wall']} for ch in core.chunk(indices, nproc * 4)]
    results = core.run_pool(worker, jobs, nproc=nproc, wall_cap=cfg['wall'] + 240)
    stats, found, samples, digests, shapes = {}, [], [], [], set()
    triples = set()
    for r in results:
        triples.update(tuple(t) for t in r.get('triples', ()))
        core.merge_counts(stats, r['stats'])
        found.extend(r['violations'])
        samples.extend(r['samples'])
        digests.extend(r['digests'])
        shapes.update(r['shapes'])
    if args.digests:
        for idx, d, e in sorted(digests):
            print('DIGEST %d %s %x' % (idx, d, e))

    known = core.load_known_findings(PROP)
    new, known_hits, harness_errors = [], [], []
    seen = set()
    by_sig = {}
    for v in found:
        by_sig.setdefault(signature(v), []).append(v)
    limit = int(os.environ.get('HPLSIM_REPORT_MAX', '2'))
    for sig, vs in sorted(by_sig.items()):
        for v in vs[:limit]:
            prep()
            sc = gen_scenario(v['seed'], cfg)
            msc, mv = minimise(sc, v)
            if mv is None:
                mv, msc = v, sc
            key = (signature(mv), tuple(s['text'] for s in msc['sources']), len(msc['ops']))
            if key in seen:
                continue
            seen.add(key)
            path = core.write_replay(PROP, '%s_%d' % (mv['class'], v['run_index']), make_replay(msc, mv))
            hit = next((k for k in known if k.get('signature') == signature(mv)), None)
            if hit is not None:
                known_hits.append('%s (%s)' % (hit.get('what', ''), signature(mv)))
                continue
            if not os.environ.get('HPLSIM_NO_VERIFY'):
                ok, out = core.verify_replay_fresh(PROP, path, mv['class'])
                if not ok:
                    harness_errors.append('violation %s did not replay in a fresh interpreter (%s): %s' % (mv['class'], path, out[-300:]))
                    continue
            new.append((path, '%s [%s]: %s' % (mv['class'], signature(mv), mv['detail'][:300])))
    # the same check, other run indices, under other interpreter configurations (python -O)
    slices = [] if args.digests else core.run_config_slices(PROP, args.tier, max(8, cfg['runs'] // 8), new, known_hits, harness_errors)
    wall = time.monotonic() - t0
    runs = stats.get('runs', 0)
    coverage = {
        'interpreter_configuration_slices': slices,
        'evaluations': int(stats.get('ops', 0)),
        'distinct_nontrivial': len(triples),
        'rule': 'cases = API calls executed inside seeded histories, each followed by a full re-snapshot of every pooled tree; '
                'distinct_nontrivial counts the distinct (operation, receiver class, receiver shares nodes with another pooled tree?) '
                'triples exercised in this run',
        'distinct_operation_kinds': len(shapes),
        'samples': samples[:3],
        'runs': runs,
        'runs_per_hour': int(runs / wall * 3600) if wall > 0 else 0,
        'seeds': 'run i uses seed H(VERIF_SEED, "C16", i), i in [%d, %d)' % (args.offset, args.offset + runs),
        'ops_by_kind': {k[3:]: v for k, v in sorted(stats.items()) if k.startswith('op_')},
        'fault_kinds_fired': {
            'calls_that_failed_on_their_own': stats.get('failed_calls', 0),
            'calls_aborted_by_injection': stats.get('aborted_calls', 0),
            'aborts_by_exception': {k[6:]: v for k, v in stats.items() if k.startswith('abort_')},
            'set_iterations_owned_by_scheduler': stats.get('set_iterations', 0),
        },
        'ops_on_trees_sharing_nodes_with_another_handle': stats.get('ops_on_shared_nodes', 0),
        'but_copies_checked_against_fresh_construction': stats.get('but_copies_checked', 0),
        'handles_created_from_results': stats.get('handles_from_results', 0),
        'sources_rejected': stats.get('source_rejected', 0),
        'runs_skipped_for_time': stats.get('runs_skipped_for_time', 0),
        'pythonhashseed': os.environ.get('PYTHONHASHSEED'),
        'real_vs_stub': {'real': ['all of hpl (parser, ast, rewrite, types)'], 'stub_or_model': ['snapshot/twin oracle', 'SimSet order seam', 'line-event abort injector']},
        'simulated_time': 'not applicable: no clock in this property',
    }
    assumptions = [
        'direct constructor calls (HplBinaryOperator(...), ...) are not among the calls the statement lists and are not judged; but(), casts, queries, printers, rewrites and type checks are',
        'user code may legally write to a node\'s metadata dict; that one mutation is modelled and expected',
        'nothing is asserted about whether an operation should have succeeded (C14)',
    ]
    core.write_evidence(PROP, args.tier, master, 'exploration', coverage, wall, len(new), assumptions)
    print('C16: %d runs, %d ops (%d failed, %d aborted), %.1fs' % (runs, stats.get('ops', 0), stats.get('failed_calls', 0), stats.get('aborted_calls', 0), wall))
    return core.finish(PROP, new, known_hits, harness_errors)
