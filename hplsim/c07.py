"""C07 - parsing never fails in undocumented ways; parser objects are stateless (DESIGN 3).

A run = six long-lived parser objects driven by one seeded history of calls; some texts are fault
texts (they abort the pipeline in the lexer, the LALR driver, a callback, a validator), some calls
are aborted from outside (line-event interrupts, MemoryError, real stack exhaustion).
Reference model of a parser: "a parser with no past" - a pristine parser object, forked off for
exactly one call.
"""

import argparse
import hashlib
import os
import pickle
import re
import signal
import sys
import time
import warnings

from hplsim import core, gen, seams

PROP = 'C07'

TIERS = {
    'quick': dict(runs=700, calls=(10, 40), wall=300, marathon=0.018),
    'thorough': dict(runs=6000, calls=(10, 60), wall=2400, marathon=0.012),
}

PARSER_KINDS = ('specification', 'property', 'property', 'predicate', 'condition', 'expression')
DOCUMENTED = ('HplSyntaxError', 'HplSanityError', 'TypeError', 'ValueError')
KEYWORDS = {'not', 'and', 'or', 'implies', 'iff', 'in', 'to', 'forall', 'exists', 'as', 'within', 'no', 'some',
            'requires', 'causes', 'forbids', 'after', 'until', 'globally', 'True', 'False', 'PI', 'INF', 'NAN', 'E'}
CALL_SHAPE = re.compile(r'([A-Za-z_][A-Za-z_0-9]*)\s*\(')
CPU_BUDGET = 5.0

###############################################################################
# Outcomes
###############################################################################


def dump(obj):
    """Deep structural dump of an AST (own walk over attrs fields; no ids)."""
    import attrs
    import enum
    cls = type(obj)
    if attrs.has(cls):
        return (cls.__name__,) + tuple((a.name, dump(getattr(obj, a.name))) for a in attrs.fields(cls))
    if isinstance(obj, (tuple, list)):
        return tuple(dump(e) for e in obj)
    if isinstance(obj, dict):
        return tuple(sorted((repr(k), dump(v)) for k, v in obj.items()))
    if isinstance(obj, enum.Enum):
        return ('enum', cls.__name__, repr(obj._value_))
    return (cls.__name__, repr(obj))


# The warnings filter of the process the library runs in: 'default', or 'error' (python -W error,
# PYTHONWARNINGS=error, pytest's filterwarnings = error). Set per scenario, applied around library
# calls only (never around harness code).
_WARN = ['default']


def _call(fn, text):
    if _WARN[0] == 'error':
        with warnings.catch_warnings():
            warnings.simplefilter('error')
            return fn(text)
    return fn(text)


def outcome_of(fn, text, ctx=None):
    """('ok', digest, kind-of-result) | ('err', exception class name, site).
    `ctx` (an injector) is active only around the call itself, not around the digest computation."""
    try:
        if ctx is not None:
            with ctx:
                r = _call(fn, text)
        else:
            r = _call(fn, text)
    except RecursionError:
        raise
    except Exception as e:
        if ctx is not None and getattr(ctx, 'fired', False) and isinstance(e, MemoryError):
            raise
        return ('err', type(e).__name__, _raise_site(e), category(e))
    d = hashlib.sha1(repr((dump(r), str(r))).encode()).hexdigest()
    return ('ok', d, type(r).__name__)


def category(e):
    """The documented error an exception IS (a subclass of a documented class is that class), else its
    own class name."""
    from hpl.errors import HplSanityError, HplSyntaxError
    for name, cls in (('HplSyntaxError', HplSyntaxError), ('HplSanityError', HplSanityError), ('TypeError', TypeError)):
        if isinstance(e, cls):
            return name
    if isinstance(e, ValueError) and not isinstance(e, UnicodeError):
        return 'ValueError'
    return type(e).__name__


def _raise_site(e):
    tb = e.__traceback__
    site = None
    while tb is not None:
        fn = tb.tb_frame.f_code.co_filename
        if '/hpl/' in fn or '/lark/' in fn or '/attr' in fn:
            i = fn.rfind('/', 0, fn.rfind('/'))
            site = '%s:%d' % (fn[i + 1:], tb.tb_lineno)
        tb = tb.tb_next
    return site


def result_kind_ok(kind, name):
    if kind == 'specification':
        return name == 'HplSpecification'
    if kind == 'property':
        return name == 'HplProperty'
    if kind in ('predicate', 'condition'):
        return name in ('HplPredicateExpression', 'HplVacuousTruth', 'HplContradiction')
    return name.startswith('Hpl')


def documented(exc_name, text):
    if exc_name in ('HplSyntaxError', 'HplSanityError', 'TypeError'):
        return True
    if exc_name == 'ValueError':
        for m in CALL_SHAPE.finditer(text):
            nm = m.group(1)
            # the contextual lexer reads any keyword as a plain name where the keyword cannot occur,
            # so `or (` or `requires (` is a call to an unknown function too
            if nm not in gen.BUILTIN_FUNCTIONS:
                return True
            # ... and it matches operator keywords without a word boundary: `x int (0.2)` is read as
            # `x in t(0.2)`, `p order (1)` as `p or der(1)` - calls to the unknown functions t, der
            # (only where an operator can stand: right after something that can end an operand)
            before = text[:m.start(1)].rstrip()
            if before and (before[-1].isalnum() or before[-1] in '_)]}".'):
                for rest in _after_keyword_prefixes(nm):
                    if rest not in gen.BUILTIN_FUNCTIONS:
                        return True
    return False


KEYWORD_PREFIXES = ('in', 'or', 'and', 'not', 'iff', 'implies', 'to')


def _after_keyword_prefixes(name, depth=0):
    """What is left of a name after one or more operator keywords were split off its front."""
    out = []
    if depth > 3:
        return out
    for kw in KEYWORD_PREFIXES:
        if name.startswith(kw) and len(name) > len(kw):
            rest = name[len(kw):]
            if rest[0].isalpha() or rest[0] == '_':
                out.append(rest)
                out.extend(_after_keyword_prefixes(rest, depth + 1))
    return out


###############################################################################
# The reference model: a pristine parser, forked for one call
###############################################################################

_pristine = {}
_memo = {}


def pristine(kind):
    p = _pristine.get(kind)
    if p is None:
        from hpl import parser as hp
        p = getattr(hp, kind + '_parser')()
        _pristine[kind] = p
    return p


_table = [None]


def model_table(sc):
    """Reference outcomes for every (parser kind, text) pair a scenario can ask about. Computed in the
    prepared template process (never inside a run), so that module-level state a run may have
    poisoned cannot leak into the reference."""
    table = {}
    _WARN[0] = sc.get('warnings', 'default')
    for call in sc['calls']:
        if call.get('unjudged'):
            continue
        kind = PARSER_KINDS[call['parser']]
        text = sc['texts'][call['text']]['text']
        f = call.get('fault')
        need_events = bool(f and f['type'] == 'interrupt' and f.get('k') is None)
        have = table.get((kind, text))
        if have is None or (need_events and have[1] is None):
            table[(kind, text)] = model(kind, text, need_events)
    fam_kind = {'specification': 'specification', 'property': 'property', 'predicate': 'predicate', 'condition': 'condition'}
    for ti in sc.get('module_calls', ()):
        tx = sc['texts'][ti]
        key = (fam_kind[tx['family']], tx['text'])
        if key not in table:
            table[key] = model(*key)
    return table


def model(kind, text, need_events=False):
    """Outcome of a parser with no past, plus (only when asked: tracing costs 20x) the number of
    traced line events of that call."""
    key = (kind, text)
    mkey = (kind, text, _WARN[0])
    if _table[0] is not None:
        r = _table[0].get(key)
        if r is not None:
            return r
        raise core.HarnessError('reference outcome missing for %r' % (key,))
    r = _memo.get(mkey)
    if r is not None and (r[1] is not None or not need_events):
        return r
    p = pristine(kind)
    rfd, wfd = os.pipe()
    pid = os.fork()
    if pid == 0:
        status = 1
        try:
            os.close(rfd)
            signal.setitimer(signal.ITIMER_PROF, CPU_BUDGET * 2)  # default action of SIGPROF ends the child
            it = seams.Interrupter(None) if need_events else None
            try:
                oc = outcome_of(p.parse, text, it)
            except RecursionError:
                oc = ('err', 'RecursionError', None, 'RecursionError')
            data = pickle.dumps((oc, it.events if it is not None else None))
            os.write(wfd, data)
            status = 0
        finally:
            os._exit(status)
    os.close(wfd)
    chunks = []
    while True:
        b = os.read(rfd, 65536)
        if not b:
            break
        chunks.append(b)
    os.close(rfd)
    os.waitpid(pid, 0)
    if not chunks:
        r = (('err', 'ModelTimeout', None, 'ModelTimeout'), 0 if need_events else None)
    else:
        r = pickle.loads(b''.join(chunks))
    if len(_memo) > 20000:
        _memo.clear()
    _memo[mkey] = r
    return r


###############################################################################
# Workload
###############################################################################


def _expr_text(sim, boolean=True, depth=None):
    depth = depth or sim.weighted('edepth', [(3, 2), (3, 4), (2, 6), (1, 9), (0.5, 12)])
    eg = gen.ExprGen(sim, max_depth=depth, allow_alias=sim.coin('al', 0.5), allow_quant=sim.coin('q', 0.5),
                     trig_bias=0.2, allow_consts=sim.coin('consts', 0.3))
    t = eg.boolean(0) if boolean else eg.num(0)
    return gen.render(gen.sanitize_powers(t))


def _prop_text(sim):
    return gen.render_property(gen.PropGen(sim, max_depth=sim.randint('pdepth', 1, 4), allow_consts=True).prop())


def _extreme_text(sim, family):
    """Legal-looking texts at the edges of the bounded space: deep nesting, long flat chains, huge
    or tiny numbers, strings with escapes and non-ASCII characters."""
    k = sim.choose('xkind', 6)
    if k == 0:
        inner = _expr_text(sim, depth=2)
        for _ in range(sim.randint('xdepth', 4, 12)):
            inner = sim.pick('xwrap', ('(%s)', '(not %s)', '(%s and p)', '(q or %s)', '(forall i in xs: ((@i > 0) and %s))'))  % inner
        body = inner
    elif k == 1:
        n = sim.randint('xlen', 20, 80)
        op = sim.pick('xop', (' and ', ' or ', ' + ', ' * '))
        atoms = ['p', 'q', 'ok'] if op in (' and ', ' or ') else ['x', 'y', '1', '2.5']
        chain = op.join(sim.pick('xatom', atoms) for _ in range(n))
        body = chain if op in (' and ', ' or ') else '(%s) > 0' % chain
    elif k == 2:
        num = sim.pick('xnum', ('1e400', '9' * 400, '0.' + '0' * 300 + '1', '1E-400', '00012', '1.5e3', '123456789012345678901234567890'))
        body = '(x < %s)' % num
    elif k == 3:
        st = sim.pick('xstr', ('"é"', '"a\\"b"', '"\\n"', '"' + 'z' * 300 + '"', '"{ } ( )"', '"@A.x"', '""'))
        body = '(txt = %s)' % st
    elif k == 4:
        body = '(%s)' % ' implies '.join(['(x > %d)' % i for i in range(sim.randint('ximp', 3, 12))])
    else:
        body = 'm' + ''.join(sim.pick('xacc', ('.x', '.m', '[0]', '[k]', '[x + 1]')) for _ in range(sim.randint('xaccn', 3, 15))) + ' > 0'
    if family == 'property':
        return 'globally: no a { %s }' % body, 'extreme'
    if family == 'predicate':
        return '{ %s }' % body, 'extreme'
    return body, 'extreme'


def _fault_text(sim, family):
    """Fault texts: each aborts the pipeline at a chosen stage. Returns (text, tag)."""
    k = sim.weighted('fkind', [(2, 'F1a_unicode'), (2, 'F1a_tokens'), (4, 'F1b_mutation'), (1, 'F1c_dupmeta'),
                               (2, 'F1d_type'), (2, 'F1e_sanity'), (1.5, 'F1f_function'), (0.6, 'F1g_keywordish'),
                               (1.2, 'F1h_unterminated'), (1.6 if family == 'property' else 0, 'F1i_ownalias')])
    if k == 'F1i_ownalias':
        # an event's own alias used where a message cannot be (it is rewritten to the message itself
        # when the event is built, so these fail deep inside a copy-with-changes)
        use = sim.pick('ownuse', ('v in {@X, 1}', 'v in {@X}', '@X > 1', 'xs[@X] > 0', 'abs(@X) > 0', 'x in [@X to 2]', 'max({1, @X}) > 0',
                                  'forall i in {@X, 1}: (@i > 0)', 'not @X', '@X.x > @X', '@X = @X', 'sum({@X.x, @X}) > 0', 'v in {1, @X.x, @X}'))
        return sim.pick('ownshape', ('globally: no a as X { %s }', 'after a as X { %s }: no b', 'globally: no (a as X { %s } or b)',
                                     'globally: b causes a as X { %s }', 'until a as X { %s }: some b')) % use, k
    if k == 'F1h_unterminated':
        # a forgotten closing quote (or bracket) with a tail of varying length on the same line
        tail = ' '.join(sim.pick('tailw', ('base_link', 'and', '(linear.x', '>', '0.0', 'or', 'angular.z', '<', '1)', 'x', 'y', '@A.k'))
                        for _ in range(sim.randint('tailn', 1, 14)))
        opener = sim.pick('opener', ('txt = "', 'txt != "caf', '"', 'x in {1, 2, ', 'x in [0 to ', 'xs[', 'abs(('))
        body = opener + tail
        if family == 'property':
            return sim.pick('ut_prop', ('globally: no a { %s }', '# title: "%s\nglobally: no a', 'globally: no a { %s')) % body, k
        if family == 'predicate':
            return '{ %s }' % body, k
        return body, k
    if family == 'property':
        base = _prop_text(sim)
    elif family == 'predicate':
        base = '{ %s }' % _expr_text(sim)
    else:
        base = _expr_text(sim, boolean=sim.coin('fb', 0.7))
    if k == 'F1a_unicode':
        if sim.coin('inject', 0.5):
            pos = sim.choose('upos', len(base) + 1)
            return base[:pos] + gen.random_unicode(sim, sim.randint('un', 1, 3)) + base[pos:], k
        return gen.random_unicode(sim), k
    if k == 'F1a_tokens':
        return gen.random_tokens(sim), k
    if k == 'F1b_mutation':
        return gen.mutate_tokens(sim, base), k
    if k == 'F1c_dupmeta':
        key = sim.pick('dupkey', ('id', 'title', 'description'))
        val = 'p1' if key == 'id' else '"t"'
        body = base.split('\n')[-1] if family == 'property' else 'globally: no a'
        extra = '# title: "x"\n' if sim.coin('third', 0.3) else ''
        return '# %s: %s\n%s# %s: %s\n%s' % (key, val, extra, key, val, body), k
    if k == 'F1d_type':
        clash = sim.pick('clash', ('(x + True)', '(not 3)', '({1, 2} and p)', '(x < "a")', '(p + 1)', '(xs[p])',
                                   '(x.y.z and x)', '(len(x) + len(p) > x and x)', '(forall i in 3: (@i > 0))',
                                   '(forall i in xs: (@i + 1))', '(abs(p and q))', '([p to 2])', '(x in y in k)'))
        if family == 'property':
            return 'globally: no a { %s }' % clash, k
        if family == 'predicate':
            return sim.pick('predclash', ('{ %s }' % clash, '{ x + 1 }', '{ "a" }', '{ {1, 2} }')), k
        return '(%s and %s)' % (base, clash) if sim.coin('wrap', 0.5) else clash, k
    if k == 'F1e_sanity':
        if family == 'property':
            return sim.pick('sanity', ('globally: no a { x > @Z.x }', 'after a as M: b as M causes c', 'globally: no (a or a)',
                                       'after a as M until b as M: no c', 'globally: a { x = @B.x } causes b as B',
                                       'globally: b as B requires a { x = @B.x } within 1 s', 'until q { @P.x = 1 }: no a',
                                       'globally: no a { forall i in xs: (x > 1) }', 'globally: no a { forall i in {@i}: (@i > 0) }',
                                       'globally: no a { forall i in xs: (forall i in xs: (@i > 0)) }',
                                       'globally: (a as X or b as X) causes c')), k
        return sim.pick('qsanity', ('forall i in xs: (x > 1)', 'forall i in {@i}: (@i > 0)', 'exists i in xs: (forall i in xs: (@i > 0))',
                                    '{ forall i in xs: (x > 1) }', 'forall i in [0 to @i]: (@i > 0)')), k
    if k == 'F1f_function':
        call = sim.pick('unk', ('foo(x)', 'Abs(x)', 'notx(p)', 'lenn(xs)', 'f(1)', 'android(x)', 'log(x)', 'atan2(x)', 'max(x)', 'roll(x)', 'gcd(p)'))
        if family == 'property':
            return 'globally: no a { %s > 1 }' % call, k
        if family == 'predicate':
            return '{ %s > 1 }' % call, k
        return '(%s > 1)' % call, k
    names = ('nothing', 'android', 'orbit', 'inside', 'total', 'ashes', 'forallx', 'existsy', 'Truex', 'PIx', 'Ex', 'notify', 'implies_x', 'iffy', 'tone')
    n1, n2 = sim.pick('kw1', names), sim.pick('kw2', names)
    if family == 'property':
        return 'globally: no %s as %s { %s > 1 }' % (n1, n2.capitalize(), n2), k
    if family == 'predicate':
        return '{ %s > %s }' % (n1, n2), k
    return '(%s > %s)' % (n1, n2), k


def gen_marathon(sim, cfg):
    """Many distinct short texts on ONE long-lived parser object, then the early ones again: state that
    needs a long history to build up (a cache that evicts at its 1025th entry, a counter that wraps)."""
    family, pi = sim.pick('mfamily', (('condition', 4), ('property', 1), ('predicate', 3)))
    n = sim.pick('mlen', (300, 1100, 1100, 2100))
    # what is distinct from one text to the next: number spellings, field names, strings, topics
    variety = sim.pick('mvariety', ('numbers', 'numbers', 'fields', 'strings', 'topics' if family == 'property' else 'numbers'))
    texts = []
    for i in range(n):
        topic = 'a'
        if variety == 'numbers':
            body = '(x > %d)' % i if i % 3 else '(k = %d.5) and p' % i if i % 2 else '(k = %d) and p' % i
        elif variety == 'fields':
            body = '(field_%d > 1)' % i if i % 3 else '(m.f%d = k) and p' % i
        elif variety == 'strings':
            body = '(txt = "s%d")' % i if i % 3 else '(frame_id != "frame %d") and p' % i
        else:
            body = '(x > 1)'
            topic = '/robot/t%d' % i
        if i % 97 == 0:
            body = '(x + True) > %d' % i  # a failing text now and then
        t = body if family == 'condition' else '{ %s }' % body if family == 'predicate' else 'globally: no %s { %s }' % (topic, body)
        texts.append({'family': family, 'text': t, 'tag': 'marathon'})
    calls = [{'parser': pi, 'text': i, 'fault': None} for i in range(n)]
    for c in calls[40:]:
        c['unjudged'] = True
    calls += [{'parser': pi, 'text': sim.choose('again', min(n, 40)), 'fault': None} for _ in range(30)]
    return {'texts': texts, 'calls': calls, 'module_calls': [], 'digest_gen': sim.digest()}


def gen_scenario(seed, cfg):
    sim = core.Sim(seed)
    if cfg.get('marathon') and sim.coin('marathon', cfg['marathon']):
        sc = gen_marathon(sim, cfg)
        sc['seed'] = seed
        return sc
    ntexts = sim.randint('ntexts', 4, 9)
    texts = []
    for _ in range(ntexts):
        family = sim.weighted('family', [(4, 'property'), (2, 'predicate'), (3, 'condition')])
        if texts and sim.coin('sibling', 0.22):
            base = sim.pick('sibof', texts)
            family = base['family']
            t, tag = gen.sibling_text(sim, base['text']), 'sibling'
        elif sim.coin('extreme', 0.12):
            t, tag = _extreme_text(sim, family)
        elif sim.coin('valid', 0.5):
            if family == 'property':
                t = _prop_text(sim)
                if sim.coin('multi', 0.2):
                    t = t + '\n' + _prop_text(sim)
                    family = 'specification'
            elif family == 'predicate':
                t = '{ %s }' % _expr_text(sim)
            else:
                t = _expr_text(sim, boolean=sim.coin('cb', 0.7))
            tag = 'valid'
        else:
            t, tag = _fault_text(sim, family)
        texts.append({'family': family, 'text': t, 'tag': tag})
    enabled = {'interrupt': sim.coin('en_int', 0.6), 'memory': sim.coin('en_mem', 0.4), 'recursion': sim.coin('en_rec', 0.4)}
    ncalls = sim.randint('ncalls', *cfg['calls'])
    calls = []
    for _ in range(ncalls):
        ti = sim.choose('ti', ntexts)
        fam = texts[ti]['family']
        if sim.coin('anyparser', 0.15):
            pi = sim.choose('pi', len(PARSER_KINDS))
        else:
            cands = {'specification': (0,), 'property': (1, 2, 0), 'predicate': (3,), 'condition': (4, 5)}[fam]
            pi = sim.pick('pic', cands)
        fault = None
        r = sim.rng.random()
        sim.note('faultdraw', r)
        if r < 0.22:
            kinds = [k for k in ('interrupt', 'memory', 'recursion') if enabled[k]]
            if kinds:
                fk = sim.pick('fk', kinds)
                if fk == 'recursion':
                    fault = {'type': 'recursion', 'extra': sim.weighted('extra', [(2, sim.randint('ex1', 3, 30)), (2, sim.randint('ex2', 30, 90)), (1, sim.randint('ex3', 90, 200))])}
                else:
                    mix = sim.choose('fracmix', 3)
                    frac = sim.rng.random() if mix == 0 else 1.0 - sim.rng.random() * 0.02 if mix == 1 else sim.rng.random() ** 2
                    sim.note('frac', frac)
                    fault = {'type': 'interrupt', 'frac': frac,
                             'exc': 'MemoryError' if fk == 'memory' else sim.pick('iexc', ('SimInterrupt', 'KeyboardInterrupt'))}
        calls.append({'parser': pi, 'text': ti, 'fault': fault})
    module_calls = [sim.choose('mc', ntexts) for _ in range(sim.randint('nmc', 0, 2))]
    wmode = sim.weighted('warnings', [(7, 'default'), (3, 'error')])
    # (drawn last, so that every earlier choice of every scenario stays as it was)
    if sim.coin('odd_units', 0.3):
        # a time bound in a unit a user might try (rates, microseconds, minutes), with the numbers that
        # are special for a conversion: zero, fractions, exponents
        t = 'globally: %s within %s %s' % (sim.pick('oddpat', ('no a', 'some /cmd_vel { linear_x > 0 }', 'a causes b', 'a as A requires b { x > @A.x }', 'a forbids b')),
                                          sim.pick('oddnum', ('0', '0.0', '0e0', '10', '1e3', '.5', '1e400', '2.5e-320')),
                                          sim.pick('oddunit', ('hz', 'hz', 'Hz', 'us', 'min', 'h', 'sec', 'msec', 'khz')))
        texts.append({'family': 'property', 'text': t, 'tag': 'odd_unit'})
        for _ in range(sim.randint('oddcalls', 1, 2)):
            calls.append({'parser': sim.pick('oddparser', (1, 1, 0)), 'text': len(texts) - 1, 'fault': None})
    return {'seed': seed, 'texts': texts, 'calls': calls, 'module_calls': module_calls, 'warnings': wmode, 'digest_gen': sim.digest()}


###############################################################################
# Execution
###############################################################################


class _CpuTimeout(BaseException):
    pass


def _on_vtalrm(signum, frame):
    raise _CpuTimeout()


def guarded(fn, text, ctx=None):
    """Run fn(text) under a CPU-time budget (ITIMER_VIRTUAL: machine load cannot trip it)."""
    old = signal.signal(signal.SIGVTALRM, _on_vtalrm)
    signal.setitimer(signal.ITIMER_VIRTUAL, CPU_BUDGET)
    # hard backstop: code that never returns to the interpreter loop (a regular expression that
    # backtracks exponentially inside the re module) cannot be interrupted by a Python-level
    # handler; SIGPROF's default action ends the isolated child, whose last progress record tells
    # the parent which call it was
    signal.signal(signal.SIGPROF, signal.SIG_DFL)
    signal.setitimer(signal.ITIMER_PROF, CPU_BUDGET * 2)
    try:
        return outcome_of(fn, text, ctx)
    finally:
        signal.setitimer(signal.ITIMER_PROF, 0)
        signal.setitimer(signal.ITIMER_VIRTUAL, 0)
        signal.signal(signal.SIGVTALRM, old)


def execute(sc, stats=None, fresh_parsers=None, trace=None):
    from hpl import parser as hp
    stats = stats if stats is not None else {}
    _WARN[0] = sc.get('warnings', 'default')

    def count(k, n=1):
        stats[k] = stats.get(k, 0) + n

    count('warnings_filter_' + _WARN[0])
    parsers = {}  # long-lived parser objects of this run, constructed on first use
    prev_class = {}
    seen_outcomes = {}
    sites = stats.setdefault('_sites', set())
    abort_sites = stats.setdefault('_abort_sites', set())
    transitions = stats.setdefault('_transitions', set())
    for step, call in enumerate(sc['calls']):
        pi = call['parser']
        kind = PARSER_KINDS[pi]
        tx = sc['texts'][call['text']]
        text = tx['text']
        p = parsers.get(pi)
        if p is None:
            p = parsers[pi] = getattr(hp, kind + '_parser')()
        fault = call.get('fault')
        count('calls')
        count('text_' + tx['tag'])
        core.progress({'step': step, 'kind': kind, 'text': text})
        if call.get('unjudged'):
            # a filler of a marathon history: parsed for its effect on the object's state and held
            # to invariant 1; it is not compared with a parser with no past (its repetitions are)
            m_oc, m_events = ('ok', 'ModelTimeout', None), None
            count('filler_calls')
        else:
            (m_oc, m_events) = model(kind, text)
            count('model_queries')
        fired = False
        aborted_exc = None
        oc = None
        try:
            if fault and fault['type'] == 'interrupt':
                k = fault.get('k')
                if k is None:
                    k = max(1, 1 + int(fault['frac'] * max(0, (m_events or 1) - 1)))
                    fault['k'] = k
                it = seams.Interrupter(k, fault['exc'])
                try:
                    oc = guarded(p.parse, text, it)
                except (seams.SimInterrupt, KeyboardInterrupt, MemoryError) as e:
                    if not it.fired:
                        raise
                    aborted_exc = type(e).__name__
                fired = it.fired
                if fired:
                    count('abort_' + fault['exc'])
                    if it.site:
                        abort_sites.add((fault['exc'], '%s:%d' % it.site))
                    if oc is not None:
                        # the injected exception was swallowed inside the call and turned into
                        # something else: nothing is asserted about an aborted call
                        count('abort_swallowed')
            elif fault and fault['type'] == 'recursion':
                try:
                    oc = guarded(p.parse, text, seams.RecursionFault(fault['extra']))
                except RecursionError:
                    fired = True
                    aborted_exc = 'RecursionError'
                    count('abort_RecursionError')
                if oc is not None and oc[0] == 'err' and oc[1] == 'RecursionError':
                    fired = True
                if oc is not None and oc != m_oc:
                    # a recursion error may have been swallowed and translated by library code
                    fired = True
                    count('abort_recursion_translated')
            else:
                oc = guarded(p.parse, text)
        except _CpuTimeout:
            return _viol('timeout', 'parse did not finish within %.0fs of CPU time' % CPU_BUDGET, step, sc, kind, text)
        except RecursionError:
            if not fault:
                return _viol('undocumented:RecursionError', 'RecursionError on a text within the nesting bound', step, sc, kind, text)
            fired = True
        cls = 'aborted' if fired else ('ok' if oc[0] == 'ok' else oc[1])
        if trace is not None:
            trace.append((step, kind, cls, oc[:2] if oc is not None else None, fault.get('k') if fault else None))
        transitions.add((kind, prev_class.get(pi), cls))
        prev_class[pi] = cls
        if fired:
            count('aborted_calls')
            continue
        # --- invariant 1: documented outcomes only
        if oc[0] == 'err':
            if oc[2]:
                sites.add((oc[1], oc[2]))
            count('err_' + oc[3])
            if not documented(oc[3], text):
                return _viol('undocumented:' + oc[1], 'parser raised %s (at %s)' % (oc[1], oc[2]), step, sc, kind, text)
        else:
            count('ok_results')
            if not result_kind_ok(kind, oc[2]):
                return _viol('result-kind', '%s parser returned a %s' % (kind, oc[2]), step, sc, kind, text)
        # --- invariant 3: same as a parser with no past
        if call.get('unjudged'):
            pass
        elif m_oc[1] == 'ModelTimeout':
            count('model_timeouts')
        elif oc[:2] != m_oc[:2]:
            return _viol('stateful', 'long-lived %s parser gave %s after this history, a parser with no past gives %s' % (
                kind, _short(oc), _short(m_oc)), step, sc, kind, text)
        seen_outcomes.setdefault((kind, text), set()).add(oc[:2])
    # --- invariant 4: module-level entry points agree with the object API
    for ti in sc.get('module_calls', ()):
        tx = sc['texts'][ti]
        fam = tx['family']
        fn, kind = {'specification': (hp.parse_specification, 'specification'), 'property': (hp.parse_property, 'property'),
                    'predicate': (hp.parse_predicate, 'predicate'), 'condition': (hp.parse_condition, 'condition')}[fam]
        core.progress({'step': len(sc['calls']), 'kind': kind, 'text': tx['text']})
        try:
            oc = guarded(fn, tx['text'])
        except _CpuTimeout:
            return _viol('timeout', 'entry point did not finish within the CPU budget', len(sc['calls']), sc, kind, tx['text'])
        count('module_calls')
        m_oc, _ev = model(kind, tx['text'])
        if oc[0] == 'err' and not documented(oc[3], tx['text']):
            return _viol('undocumented:' + oc[1], 'parse_%s raised %s' % (fam, oc[1]), len(sc['calls']), sc, kind, tx['text'])
        if m_oc[1] != 'ModelTimeout' and oc[:2] != m_oc[:2]:
            return _viol('entrypoints-disagree', 'parse_%s gives %s, the parser object gives %s' % (fam, _short(oc), _short(m_oc)), len(sc['calls']), sc, kind, tx['text'])
    # --- history check
    for (kind, text), ocs in seen_outcomes.items():
        if len(ocs) > 1:
            return _viol('stateful', 'the same text got different outcomes at different positions of the history: %r' % sorted(ocs), len(sc['calls']), sc, kind, text)
    return None


def _short(oc):
    return '%s:%s' % (oc[0], oc[1][:12])


def _viol(cls, detail, step, sc, kind, text):
    return {'class': cls, 'detail': detail, 'step': step, 'parser_kind': kind, 'text': text}


###############################################################################
# Worker / minimise / replay
###############################################################################


def prep():
    """Deterministic template state: every run is forked off a process that has done exactly this."""
    for k in PARSER_KINDS:
        pristine(k)


def one_run(sc, table):
    _table[0] = table
    stats = {}
    tr = []
    v = execute(sc, stats, trace=tr)
    seed = sc.get('seed')
    return {'v': v, 'stats': stats, 'digest_gen': sc['digest_gen'], 'digest_exec': core.derive(repr(tr)),
            'texts': [t['text'] for t in sc['texts']],
            'sample': {'seed': seed, 'texts': [dict(t, text=t['text'][:160]) for t in sc['texts'][:4]], 'calls': sc['calls'][:8]}}


def died_violation(e, sc):
    """The isolated child was ended by the hard CPU backstop: a non-terminating call."""
    if not e.progress:
        raise e
    last = e.progress[-1]
    return _viol('timeout', 'the call did not return within %.0fs of CPU time (not even interruptible: process ended by the hard limit)' % (CPU_BUDGET * 2),
                 last['step'], sc, last['kind'], last['text'])


def isolated_execute(sc):
    """Execute a scenario in a child forked from the prepared template (used by minimise/replay)."""
    table = model_table(sc)

    def go():
        _table[0] = table
        v = execute(sc, {})
        return v, sc
    try:
        return core.run_isolated(go)
    except core.IsolatedDied as e:
        return died_violation(e, sc), sc


def worker(job):
    cfg = job['cfg']
    stats = {'_sites': set(), '_abort_sites': set(), '_transitions': set()}
    found = []
    digests = []
    samples = []
    ntexts = set()
    t0 = time.monotonic()
    prep()
    for idx in job['indices']:
        if time.monotonic() > job['deadline']:  # one deadline for the whole batch (CLOCK_MONOTONIC is system-wide)
            stats['runs_skipped_for_time'] = stats.get('runs_skipped_for_time', 0) + 1
            continue
        seed = core.derive(job['master'], PROP, idx)
        sc = gen_scenario(seed, cfg)
        try:
            r = core.run_isolated(one_run, sc, model_table(sc))
        except core.IsolatedDied as e:
            v = died_violation(e, sc)
            v['run_index'] = idx
            v['seed'] = seed
            found.append(v)
            stats['runs'] = stats.get('runs', 0) + 1
            stats['runs_ended_by_hard_cpu_limit'] = stats.get('runs_ended_by_hard_cpu_limit', 0) + 1
            if len(found) >= 4:
                break
            continue
        for k in ('_sites', '_abort_sites', '_transitions'):
            stats[k].update(r['stats'].pop(k, set()))
        core.merge_counts(stats, r['stats'])
        stats['runs'] = stats.get('runs', 0) + 1
        digests.append((idx, r['digest_gen'], r['digest_exec']))
        ntexts.update(r['texts'])
        if len(samples) < 1:
            samples.append(dict(r['sample'], run_index=idx))
        v = r['v']
        if v is not None:
            v['run_index'] = idx
            v['seed'] = seed
            found.append(v)
            if len(found) >= 12:
                break
    sites = sorted(stats.pop('_sites', set()))
    abort_sites = sorted(stats.pop('_abort_sites', set()))
    transitions = sorted(stats.pop('_transitions', set()), key=repr)
    return {'stats': stats, 'violations': found, 'digests': digests, 'samples': samples, 'distinct_texts': len(ntexts),
            'sites': sites, 'abort_sites': abort_sites, 'transitions': transitions}


def minimise(sc, v, budget=120, seconds=60.0):
    """ddmin over the calls, within a budget of re-executions AND of real time (a history of a thousand
    calls costs seconds per re-execution; an unminimised replay file is still a replay file)."""
    cls = v['class']
    t_end = time.monotonic() + seconds
    if cls == 'timeout' and v['step'] < len(sc['calls']):
        # every re-execution costs the whole CPU budget: try the failing call alone, nothing else
        single = dict(sc)
        single['calls'] = [dict(sc['calls'][v['step']], fault=None)]
        single['module_calls'] = []
        r, out = isolated_execute(single)
        if r is not None and r['class'] == cls:
            return out, r
        return sc, v
    calls = sc['calls'][:v['step'] + 1] if v['step'] < len(sc['calls']) else list(sc['calls'])

    def fails(sub):
        if time.monotonic() > t_end:
            return False
        t = dict(sc)
        t['calls'] = [dict(c, fault=dict(c['fault']) if c.get('fault') else None) for c in sub]
        if v['step'] < len(sc['calls']):
            t['module_calls'] = []
        try:
            r, _sc = isolated_execute(t)
        except Exception:
            return False
        return r is not None and r['class'] == cls

    if not fails(calls):
        return sc, v
    if len(calls) > 200:
        # a long history: first try its two ends (the early texts, the late repetitions)
        for head in (40, 200):
            cand = calls[:head] + calls[-40:]
            if fails(cand):
                calls = cand
                break
    small = core.ddmin(calls, fails, budget=budget)
    for i in range(len(small)):
        if small[i].get('fault'):
            t = [dict(c) for c in small]
            t[i]['fault'] = None
            if fails(t):
                small = t
    out = dict(sc)
    out['calls'] = small
    if v['step'] < len(sc['calls']):
        out['module_calls'] = []
    if out.get('warnings', 'default') != 'default':
        plain = dict(out, warnings='default')
        r0, _o = isolated_execute(plain)
        if r0 is not None and r0['class'] == cls:
            out = plain  # the warnings filter plays no part
    r, out2 = isolated_execute(out)
    return (out2 if r is not None else out), (r or v)


def make_replay(sc, v):
    return {'property': PROP, 'class': v['class'], 'detail': v['detail'], 'step': v['step'], 'failing_text': v['text'],
            'parser_kind': v['parser_kind'], 'parsers': list(PARSER_KINDS), 'texts': sc['texts'], 'calls': sc['calls'],
            'module_calls': sc.get('module_calls', []), 'warnings_filter': sc.get('warnings', 'default'), 'seed': sc.get('seed'), 'pythonhashseed': os.environ.get('PYTHONHASHSEED'),
            'how_to_replay': '/venv/bin/python /verif/check.py C07 --replay <this file>'}


def replay(doc):
    sc = {'texts': doc['texts'], 'calls': doc['calls'], 'module_calls': doc.get('module_calls', []), 'warnings': doc.get('warnings_filter', 'default')}
    prep()
    return isolated_execute(sc)[0]


def main(argv):
    ap = argparse.ArgumentParser(prog='check.py C07')
    ap.add_argument('--tier', default=core.tier_from_env())
    ap.add_argument('--replay')
    ap.add_argument('--runs', type=int)
    ap.add_argument('--offset', type=int, default=0)
    ap.add_argument('--digests', action='store_true')
    args = ap.parse_args(argv)
    master = core.master_seed()
    if args.replay:
        doc = core.load_replay(args.replay)
        v = replay(doc)
        if v is None:
            print('REPLAY-RESULT class=none (no violation reproduced)')
            return core.EXIT_OK
        print('REPLAY-RESULT class=%s' % v['class'])
        print('  ' + v['detail'])
        print('  text: %r' % v['text'][:300])
        print('VIOLATION property=%s replay=%s' % (PROP, args.replay))
        return core.EXIT_VIOLATION
    t0 = time.monotonic()
    cfg = dict(TIERS[args.tier])
    if args.runs is not None:
        cfg['runs'] = args.runs
    scale = float(os.environ.get('HPLSIM_SCALE', '1'))
    nruns = max(16, int(cfg['runs'] * scale))
    nproc = int(os.environ.get('HPLSIM_NPROC', '0')) or min(16, os.cpu_count() or 1)
    indices = list(range(args.offset, args.offset + nruns))
    jobs = [{'cfg': cfg, 'indices': ch, 'master': master, 'deadline': time.monotonic() + cfg['wall']} for ch in core.chunk(indices, nproc * 3)]
    results = core.run_pool(worker, jobs, nproc=nproc, wall_cap=cfg['wall'] + 240)
    stats, found, samples, digests = {}, [], [], []
    sites, abort_sites, transitions = set(), set(), set()
    distinct_texts = 0
    for r in results:
        core.merge_counts(stats, r['stats'])
        found.extend(r['violations'])
        samples.extend(r['samples'])
        digests.extend(r['digests'])
        sites.update(tuple(s) for s in r['sites'])
        abort_sites.update(tuple(s) for s in r['abort_sites'])
        transitions.update(tuple(s) for s in r['transitions'])
        distinct_texts += r['distinct_texts']
    if args.digests:
        for idx, d, e in sorted(digests):
            print('DIGEST %d %s %x' % (idx, d, e))
    known = core.load_known_findings(PROP)
    new, known_hits, harness_errors = [], [], []
    seen = set()
    per_class = {}
    for v in found:
        per_class.setdefault(v['class'], []).append(v)
    limit = int(os.environ.get('HPLSIM_REPORT_MAX', '2'))
    for cls, vs in sorted(per_class.items()):
        vs.sort(key=lambda v: len(v['text']))
        for v in vs[:limit]:
            prep()
            sc = gen_scenario(v['seed'], cfg)
            # resolve fault sites exactly as the failing execution did
            _r, sc = isolated_execute(sc)
            msc, mv = minimise(sc, v)
            key = (mv['class'], mv['text'])
            if key in seen:
                continue
            seen.add(key)
            path = core.write_replay(PROP, '%s_%d' % (mv['class'].replace(':', '_'), v['run_index']), make_replay(msc, mv))
            hit = next((k for k in known if k.get('class') == mv['class'] and k.get('text') in (None, mv['text'])), None)
            if hit is not None:
                known_hits.append('%s: %r' % (hit.get('what', mv['class']), mv['text'][:80]))
                continue
            if not os.environ.get('HPLSIM_NO_VERIFY'):
                ok, out = core.verify_replay_fresh(PROP, path, mv['class'])
                if not ok:
                    harness_errors.append('violation %s did not replay in a fresh interpreter (%s): %s' % (mv['class'], path, out[-300:]))
                    continue
            new.append((path, '%s on %s parser, text %r: %s' % (mv['class'], mv['parser_kind'], mv['text'][:160], mv['detail'][:200])))
    # the same check, other run indices, under other interpreter configurations (python -O)
    slices = [] if args.digests else core.run_config_slices(PROP, args.tier, max(8, cfg['runs'] // 7), new, known_hits, harness_errors)
    wall = time.monotonic() - t0
    runs = stats.get('runs', 0)
    coverage = {
        'interpreter_configuration_slices': slices,
        'evaluations': int(stats.get('calls', 0) + stats.get('module_calls', 0)),
        'distinct_nontrivial': int(distinct_texts),
        'rule': 'cases = parse calls on long-lived parser objects inside seeded histories (each compared with a pristine parser forked for that one call); '
                'distinct_nontrivial = distinct texts used (per worker chunk), every one either a generated valid text of depth >= 2 or a fault text',
        'samples': samples[:3],
        'runs': runs,
        'runs_per_hour': int(runs / wall * 3600) if wall > 0 else 0,
        'seeds': 'run i uses seed H(VERIF_SEED, "C07", i), i in [%d, %d)' % (args.offset, args.offset + runs),
        'texts_by_kind': {k[5:]: v for k, v in sorted(stats.items()) if k.startswith('text_')},
        'outcomes': {'ok': stats.get('ok_results', 0), **{k[4:]: v for k, v in sorted(stats.items()) if k.startswith('err_')}},
        'fault_kinds_fired': {k[6:]: v for k, v in sorted(stats.items()) if k.startswith('abort_')},
        'runs_by_warnings_filter': {k[16:]: v for k, v in sorted(stats.items()) if k.startswith('warnings_filter_')},
        'aborted_calls': stats.get('aborted_calls', 0),
        'distinct_abort_sites': len(abort_sites),
        'abort_sites_sample': sorted(abort_sites)[:25],
        'distinct_exception_raising_sites': len(sites),
        'exception_sites': sorted(sites)[:60],
        'distinct_outcome_transitions_per_parser_kind': len(transitions),
        'model_queries': stats.get('model_queries', 0),
        'model_timeouts': stats.get('model_timeouts', 0),
        'module_level_entry_point_calls': stats.get('module_calls', 0),
        'runs_skipped_for_time': stats.get('runs_skipped_for_time', 0),
        'pythonhashseed': os.environ.get('PYTHONHASHSEED'),
        'real_vs_stub': {'real': ['hpl.parser (HplParser objects and parse_* functions)', 'hpl.ast', 'hpl.errors', 'lark', 'attrs', 'typeguard'],
                         'stub_or_model': ['reference model = pristine parser of the same kind, forked for one call', 'line-event interrupter', 'recursion-limit fault']},
        'simulated_time': 'not applicable: no clock; termination is checked against a CPU-time budget (ITIMER_VIRTUAL)',
    }
    assumptions = [
        'ValueError is a documented outcome only when the text contains an identifier that is not a built-in function directly followed by "("',
        'nothing is asserted about a call that was aborted by an injected exception; every later call on the same object is',
        'texts stay within nesting depth 12 / about 300 tokens',
    ]
    core.write_evidence(PROP, args.tier, master, 'exploration', coverage, wall, len(new), assumptions)
    print('C07: %d runs, %d calls (%d aborted), %d model queries, %.1fs' % (runs, stats.get('calls', 0), stats.get('aborted_calls', 0), stats.get('model_queries', 0), wall))
    return core.finish(PROP, new, known_hits, harness_errors)
