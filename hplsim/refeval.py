"""Reference evaluator for HPL expressions (the oracle of C08).

Written from the operator / function tables of the language, independent of hpl.rewrite.
It walks real hpl AST objects (it must: the simplifier's output only exists as an AST) and reads
only their data fields.

Values: bool | Fraction | float | str | tuple (array/set as tuples) | ('range', lo, hi, exlo, exhi)
        | dict (message).
Outcomes besides a value:
  Undef        - the expression has no value under this valuation (division by zero, domain error,
                 index out of bounds, max of empty, ...)
  Unspecified  - the language documentation does not pin the meaning down (see DESIGN 2.5); the
                 valuation is skipped and counted, never judged.
"""

import math
from fractions import Fraction

MODES = ('strict', 'shortcircuit', 'kleene')  # R1
SETCARD = ('distinct',)  # R2: a set literal denotes a set (each value once); see DESIGN 4

TOL = 1e-9
BAND = 1e-6
BIG = 10 ** 30


class Undef(Exception):
    pass


class Unspecified(Exception):
    pass


class Fragile(Exception):
    """A comparison / rounding landed in the numeric noise band: skip the valuation."""


class Reading:
    __slots__ = ('mode', 'setcard')

    def __init__(self, mode, setcard):
        self.mode = mode
        self.setcard = setcard

    def __repr__(self):
        return '%s/%s' % (self.mode, self.setcard)


ALL_READINGS = tuple(Reading(m, c) for m in MODES for c in SETCARD)

###############################################################################
# Numbers
###############################################################################


def to_num(v):
    """Normalise a Python number read from a literal."""
    if isinstance(v, bool):
        raise Unspecified('bool used as number')
    if isinstance(v, int):
        return Fraction(v)
    if isinstance(v, Fraction):
        return v
    if isinstance(v, float):
        if math.isnan(v) or math.isinf(v):
            raise Unspecified('non-finite literal')
        if v == int(v) and abs(v) < 2 ** 53:
            return Fraction(int(v))
        f = Fraction(v)
        if f.denominator <= 1 << 20 and f.numerator.bit_length() <= 44:
            # a short dyadic fraction (0.5, 2147483648.5): what the source says, keep it exact.
            # 5153960755.2000003 also has a small denominator, but only because its 53 bits are
            # used up by the magnitude: that is a rounded value
            return f
        return v
    raise Unspecified('not a number: %r' % (v,))


def _f(x):
    return float(x)


class Noisy(float):
    """A float whose last bits depend on an order the language leaves open (the sum or product of
    three or more set elements, at least one of them inexact): equal-looking values are not equal
    in any way a verdict may rest on. The mark survives arithmetic."""
    __slots__ = ()

    def _w(self, r):
        return Noisy(r) if isinstance(r, float) else r

    def __add__(self, o):
        return self._w(float(self) + float(o))
    __radd__ = __add__

    def __sub__(self, o):
        return self._w(float(self) - float(o))

    def __rsub__(self, o):
        return self._w(float(o) - float(self))

    def __mul__(self, o):
        return self._w(float(self) * float(o))
    __rmul__ = __mul__

    def __truediv__(self, o):
        return self._w(float(self) / float(o))

    def __rtruediv__(self, o):
        return self._w(float(o) / float(self))

    def __pow__(self, o, mod=None):
        return self._w(float(self) ** (o if isinstance(o, int) else float(o)))

    def __rpow__(self, o, mod=None):
        return self._w(float(o) ** float(self))

    def __neg__(self):
        return Noisy(-float(self))

    def __abs__(self):
        return Noisy(abs(float(self)))


def keep_noise(src, r):
    return Noisy(r) if isinstance(src, Noisy) and isinstance(r, float) else r


def num_eq(a, b):
    if isinstance(a, Fraction) and isinstance(b, Fraction):
        return a == b
    if isinstance(a, Noisy) or isinstance(b, Noisy):
        fa, fb = _f(a), _f(b)
        if abs(fa - fb) <= BAND * max(1.0, abs(fa), abs(fb)):
            raise Fragile()
        return False
    # at least one side is an inexact float: the library folds constants with exact float
    # comparisons, so anything closer than the noise band (but not identical) is not judged
    fa, fb = _f(a), _f(b)
    if fa == fb:
        return True
    d = abs(fa - fb)
    scale = max(1.0, abs(fa), abs(fb))
    if d <= BAND * scale:
        raise Fragile()
    return False


def num_lt(a, b):
    if isinstance(a, Fraction) and isinstance(b, Fraction):
        return a < b
    if num_eq(a, b):
        return False
    return _f(a) < _f(b)


def check_big(v):
    if isinstance(v, Fraction):
        if abs(v) > BIG or v.denominator > BIG:
            raise Fragile()
        if v.denominator != 1 and v.numerator.bit_length() > 53:
            # a non-integer that needs more bits than a double has (2147483648 - 2 / 2147483648): the
            # library, whose non-integers are doubles, cannot hold it either; carrying it exactly
            # would make this evaluator disagree with correct float arithmetic. It becomes the
            # nearest double, and comparisons on it go through the noise band like any inexact value.
            return float(v)
    else:
        if math.isnan(v) or math.isinf(v) or abs(v) > 1e30:
            raise Fragile()
    return v


def as_int(v):
    """Integer value of a number, or None."""
    if isinstance(v, Fraction):
        return int(v) if v.denominator == 1 else None
    r = round(v)
    if v == r:
        return int(r)
    if abs(v - r) <= BAND * max(1.0, abs(v)):
        raise Fragile()
    return None


def arith(op, a, b):
    if op == '+':
        return check_big(a + b)
    if op == '-':
        return check_big(a - b)
    if op == '*':
        return check_big(a * b)
    if op == '/':
        if num_eq(b, 0):
            raise Undef('division by zero')
        return check_big(a / b)
    if op == '**':
        return power(a, b)
    raise Unspecified(op)


def power(a, b):
    bi = as_int(b)
    if bi is not None:
        if abs(bi) > 64:
            raise Fragile()
        if num_eq(a, 0):
            if bi < 0:
                raise Undef('0 ** negative')
            return Fraction(1) if bi == 0 else Fraction(0)
        if isinstance(a, Fraction):
            return check_big(a ** bi)
        try:
            return check_big(a ** bi)
        except OverflowError:
            raise Fragile()
    # fractional exponent
    if num_eq(a, 0):
        if num_lt(b, 0):
            raise Undef('0 ** negative')
        return Fraction(0)
    if num_lt(a, 0):
        raise Undef('negative base, fractional exponent')
    try:
        return check_big(_f(a) ** _f(b))
    except OverflowError:
        raise Fragile()


###############################################################################
# Compound helpers
###############################################################################


def range_ints(r):
    """Integer members of a range value (R3: integer iteration; integer bounds only)."""
    _tag, lo, hi, exlo, exhi = r
    li, hi_i = as_int(lo), as_int(hi)
    if li is None or hi_i is None:
        raise Unspecified('iteration over a range with non-integer bounds')
    if li > hi_i:
        raise Unspecified('range with lower bound above upper bound')
    a = li + (1 if exlo else 0)
    b = hi_i - (1 if exhi else 0)
    if b - a > 200:
        raise Fragile()
    return tuple(Fraction(i) for i in range(a, b + 1))


def in_range(v, r):
    _tag, lo, hi, exlo, exhi = r
    if num_lt(hi, lo):
        raise Unspecified('range with lower bound above upper bound')
    lo_ok = num_lt(lo, v) if exlo else not num_lt(v, lo)
    hi_ok = num_lt(v, hi) if exhi else not num_lt(hi, v)
    return lo_ok and hi_ok


def val_eq(a, b):
    if isinstance(a, bool) or isinstance(b, bool):
        if isinstance(a, bool) and isinstance(b, bool):
            return a == b
        raise Unspecified('bool compared with non-bool')
    if isinstance(a, str) or isinstance(b, str):
        if isinstance(a, str) and isinstance(b, str):
            return a == b
        raise Unspecified('string compared with non-string')
    if isinstance(a, (Fraction, float)) and isinstance(b, (Fraction, float)):
        return num_eq(a, b)
    raise Unspecified('equality on %r / %r' % (type(a), type(b)))


def elements(c, reading, for_membership=False):
    """Elements of a compound value for aggregation / quantification."""
    if isinstance(c, tuple) and c and c[0] == 'range':
        return range_ints(c)
    if isinstance(c, tuple) and c and c[0] == 'set':
        vals = c[1]
        if reading.setcard == 'distinct':
            out = []
            for v in vals:
                if not any(val_eq(v, w) for w in out):
                    out.append(v)
            return tuple(out)
        return tuple(vals)
    if isinstance(c, tuple) and c and c[0] == 'array':
        return tuple(c[1])
    raise Unspecified('not a compound: %r' % (c,))


###############################################################################
# Functions
###############################################################################


def _need_num(v):
    if isinstance(v, bool) or not isinstance(v, (Fraction, float)):
        raise Unspecified('numeric function on %r' % (type(v),))
    return v


def _float_fun(f, dom=None):
    def g(v):
        v = _need_num(v)
        x = _f(v)
        if dom is not None and not dom(x):
            raise Undef('domain error')
        try:
            return keep_noise(v, check_big(f(x)))
        except (ValueError, OverflowError):
            raise Undef('domain error')
    return g


def _edge(x, pts):
    # values within the noise band of a domain edge are fragile
    for p in pts:
        if 0 < abs(x - p) < BAND:
            raise Fragile()
    return True


def fn_int(v):
    if isinstance(v, bool):
        return Fraction(int(v))
    if isinstance(v, str):
        raise Unspecified('int(string)')
    v = _need_num(v)
    i = as_int(v)
    if i is not None:
        return Fraction(i)
    if num_lt(v, 0):
        raise Unspecified('int() of a negative non-integer (truncate vs floor)')
    return Fraction(math.floor(_f(v)))


def fn_floor(v):
    v = _need_num(v)
    i = as_int(v)
    if i is not None:
        return Fraction(i)
    return Fraction(math.floor(v))


def fn_ceil(v):
    v = _need_num(v)
    i = as_int(v)
    if i is not None:
        return Fraction(i)
    return Fraction(math.ceil(v))


def fn_float(v):
    if isinstance(v, bool):
        return Fraction(int(v))
    if isinstance(v, str):
        raise Unspecified('float(string)')
    return _need_num(v)


def fn_bool(v):
    if isinstance(v, bool):
        return v
    if isinstance(v, str):
        raise Unspecified('bool(string)')
    return not num_eq(_need_num(v), 0)


def fn_abs(v):
    v = _need_num(v)
    return -v if num_lt(v, 0) else v


def fn_sqrt(v):
    v = _need_num(v)
    if num_lt(v, 0):
        raise Undef('sqrt of negative')
    if isinstance(v, Fraction):
        n, d = v.numerator, v.denominator
        rn, rd = math.isqrt(n), math.isqrt(d)
        if rn * rn == n and rd * rd == d:
            return Fraction(rn, rd)
    return keep_noise(v, math.sqrt(_f(v)))


def fn_gcd(vals):
    ints = []
    for v in vals:
        i = as_int(_need_num(v))
        if i is None:
            raise Undef('gcd of a non-integer')
        ints.append(i)
    if not ints:
        raise Unspecified('gcd of nothing')
    return Fraction(math.gcd(*ints))


def fn_max(vals):
    if not vals:
        raise Undef('max of empty')
    best = _need_num(vals[0])
    for v in vals[1:]:
        if num_lt(best, _need_num(v)):
            best = v
    return best


def fn_min(vals):
    if not vals:
        raise Undef('min of empty')
    best = _need_num(vals[0])
    for v in vals[1:]:
        if num_lt(_need_num(v), best):
            best = v
    return best


def fn_log(v, base=None):
    v = _need_num(v)
    if not num_lt(0, v):
        raise Undef('log of non-positive')
    if base is None:
        raise Unspecified('one-argument log')
    base = _need_num(base)
    if not num_lt(0, base) or num_eq(base, 1):
        raise Undef('log base')
    try:
        return check_big(math.log(_f(v)) / math.log(_f(base)))
    except (ValueError, ZeroDivisionError, OverflowError):
        raise Undef('log')


FUN1 = {
    'abs': fn_abs,
    'int': fn_int,
    'float': fn_float,
    'bool': fn_bool,
    'sqrt': fn_sqrt,
    'ceil': fn_ceil,
    'floor': fn_floor,
    'sin': _float_fun(math.sin),
    'cos': _float_fun(math.cos),
    'tan': _float_fun(math.tan),
    'asin': _float_fun(math.asin, lambda x: _edge(x, (-1.0, 1.0)) and -1.0 <= x <= 1.0),
    'acos': _float_fun(math.acos, lambda x: _edge(x, (-1.0, 1.0)) and -1.0 <= x <= 1.0),
    'atan': _float_fun(math.atan),
    'deg': _float_fun(math.degrees),
    'rad': _float_fun(math.radians),
}


def _pseudo_angle(name, msg):
    # roll/pitch/yaw of a message: never rewritten by the library; any deterministic function of
    # the argument value will do.
    if not isinstance(msg, dict):
        raise Unspecified(name)
    k = {'roll': 1, 'pitch': 2, 'yaw': 3}[name]
    x = msg.get('x', Fraction(0))
    if not isinstance(x, (Fraction, float)) or isinstance(x, bool):
        raise Unspecified(name)
    return x * k + k


###############################################################################
# The evaluator
###############################################################################


class Env:
    __slots__ = ('this', 'vars')

    def __init__(self, this, variables=None):
        self.this = this
        self.vars = dict(variables or {})

    def bind(self, name, value):
        e = Env(self.this, self.vars)
        e.vars[name] = value
        return e


def _lit_value(node):
    v = node.value
    if isinstance(v, bool):
        return v
    if isinstance(v, str):
        if len(v) >= 2 and v[0] == '"' and v[-1] == '"':
            return v[1:-1]
        return v
    return to_num(v)


def _wrap(v):
    """Schema value -> evaluator value."""
    if isinstance(v, (tuple, list)) and not (v and v[0] in ('range', 'set', 'array') and len(v) > 1 and isinstance(v[1], (tuple, list, Fraction, float))):
        return ('array', tuple(v))
    return v


def ev(node, env, reading):
    cls = type(node).__name__
    if cls == 'HplLiteral':
        return _lit_value(node)
    if cls == 'HplThisMessage':
        return env.this
    if cls == 'HplVarReference':
        name = node.token[1:]
        if name not in env.vars:
            raise Unspecified('unbound variable @%s' % name)
        return env.vars[name]
    if cls == 'HplFieldAccess':
        m = ev(node.message, env, reading)
        if not isinstance(m, dict):
            raise Unspecified('field access on a non-message')
        if node.field not in m:
            raise Unspecified('unknown field %s' % node.field)
        v = m[node.field]
        if isinstance(v, (tuple, list)):
            return ('array', tuple(v))
        return v
    if cls == 'HplArrayAccess':
        a = ev(node.array, env, reading)
        i = ev(node.index, env, reading)
        if not (isinstance(a, tuple) and a and a[0] == 'array'):
            raise Unspecified('index on a non-array')
        ii = as_int(_need_num(i))
        if ii is None:
            raise Undef('non-integer index')
        if ii < 0 or ii >= len(a[1]):
            raise Undef('index out of bounds')
        el = a[1][ii]
        if isinstance(el, (tuple, list)) and not (el and el[0] in ('array', 'set', 'range') and len(el) > 1 and isinstance(el[1], (tuple, list))):
            return ('array', tuple(el))  # an array of arrays
        return el
    if cls == 'HplSet':
        return ('set', tuple(ev(v, env, reading) for v in node.values))
    if cls == 'HplRange':
        lo = _need_num(ev(node.min_value, env, reading))
        hi = _need_num(ev(node.max_value, env, reading))
        return ('range', lo, hi, bool(node.exclude_min), bool(node.exclude_max))
    if cls == 'HplUnaryOperator':
        tok = node.operator.token
        if tok == 'not':
            v = ev(node.operand, env, reading)
            if not isinstance(v, bool):
                raise Unspecified('not on non-bool')
            return not v
        if tok == '-':
            return -_need_num(ev(node.operand, env, reading))
        raise Unspecified(tok)
    if cls == 'HplBinaryOperator':
        return ev_binary(node, env, reading)
    if cls == 'HplQuantifier':
        return ev_quant(node, env, reading)
    if cls == 'HplFunctionCall':
        return ev_call(node, env, reading)
    raise Unspecified('node kind %s' % cls)


def _ev_bool(node, env, reading):
    v = ev(node, env, reading)
    if not isinstance(v, bool):
        raise Unspecified('expected a boolean')
    return v


def _try_bool(node, env, reading):
    try:
        return _ev_bool(node, env, reading)
    except Undef:
        return None


def ev_binary(node, env, reading):
    tok = node.operator.token
    a, b = node.operand1, node.operand2
    if tok in ('and', 'or', 'implies'):
        mode = reading.mode
        if mode == 'strict':
            va = _ev_bool(a, env, reading)
            vb = _ev_bool(b, env, reading)
        elif mode == 'shortcircuit':
            va = _ev_bool(a, env, reading)
            if tok == 'and' and not va:
                return False
            if tok == 'or' and va:
                return True
            if tok == 'implies' and not va:
                return True
            vb = _ev_bool(b, env, reading)
        else:  # kleene: a defined operand that decides the result wins, whichever side
            va = _try_bool(a, env, reading)
            vb = _try_bool(b, env, reading)
            if tok == 'and':
                if va is False or vb is False:
                    return False
            elif tok == 'or':
                if va is True or vb is True:
                    return True
            else:
                if va is False or vb is True:
                    return True
            if va is None or vb is None:
                raise Undef('undefined operand')
        if tok == 'and':
            return va and vb
        if tok == 'or':
            return va or vb
        return (not va) or vb
    if tok == 'iff':
        return _ev_bool(a, env, reading) == _ev_bool(b, env, reading)
    va = ev(a, env, reading)
    vb = ev(b, env, reading)
    if tok in ('+', '-', '*', '/', '**'):
        return arith(tok, _need_num(va), _need_num(vb))
    if tok == '=':
        return val_eq(va, vb)
    if tok == '!=':
        return not val_eq(va, vb)
    if tok in ('<', '<=', '>', '>='):
        va, vb = _need_num(va), _need_num(vb)
        if tok == '<':
            return num_lt(va, vb)
        if tok == '>':
            return num_lt(vb, va)
        if tok == '<=':
            return not num_lt(vb, va)
        return not num_lt(va, vb)
    if tok == 'in':
        if isinstance(vb, tuple) and vb and vb[0] == 'range':
            return in_range(_need_num(va), vb)
        if isinstance(vb, tuple) and vb and vb[0] in ('set', 'array'):
            return any(val_eq(va, w) for w in vb[1])
        raise Unspecified('in on %r' % (vb,))
    raise Unspecified(tok)


def ev_quant(node, env, reading):
    dom = ev(node.domain, env, reading)
    elems = elements(dom, reading)
    q = node.quantifier.value
    var = node.variable
    results = []
    for e in elems:
        if reading.mode == 'strict':
            results.append(_ev_bool(node.condition, env.bind(var, e), reading))
        else:
            results.append(_try_bool(node.condition, env.bind(var, e), reading))
    if q == 'forall':
        if reading.mode == 'shortcircuit':
            for r in results:
                if r is None:
                    raise Undef('undefined body')
                if r is False:
                    return False
            return True
        if any(r is False for r in results):
            return False
        if any(r is None for r in results):
            raise Undef('undefined body')
        return True
    if reading.mode == 'shortcircuit':
        for r in results:
            if r is None:
                raise Undef('undefined body')
            if r is True:
                return True
        return False
    if any(r is True for r in results):
        return True
    if any(r is None for r in results):
        raise Undef('undefined body')
    return False


def ev_call(node, env, reading):
    name = node.function.name
    args = [ev(a, env, reading) for a in node.arguments]
    if name in ('roll', 'pitch', 'yaw'):
        if len(args) == 1:
            return _pseudo_angle(name, args[0])
        raise Unspecified(name)
    if name == 'str':
        raise Unspecified('str(): output format is not documented')
    if name in ('len', 'sum', 'prod'):
        if len(args) != 1:
            raise Unspecified(name)
        elems = elements(args[0], reading)
        if name == 'len':
            return Fraction(len(elems))
        acc = Fraction(0) if name == 'sum' else Fraction(1)
        for e in elems:
            acc = arith('+' if name == 'sum' else '*', acc, _need_num(e))
        if name == 'prod' and isinstance(acc, float) and acc == 0.0 and any(
                isinstance(e, Fraction) and e == 0 or isinstance(e, float) and e == 0.0 for e in elems):
            acc = Fraction(0)  # a zero factor makes the product zero in every order
        elif len(elems) >= 3 and isinstance(acc, float):
            acc = Noisy(acc)  # float addition and multiplication do not associate
        return acc
    if name in ('max', 'min', 'gcd'):
        if len(args) == 1 and isinstance(args[0], tuple) and args[0] and args[0][0] in ('set', 'array', 'range'):
            vals = elements(args[0], reading)
        else:
            vals = tuple(args)
        return {'max': fn_max, 'min': fn_min, 'gcd': fn_gcd}[name](vals)
    if name == 'log':
        if len(args) == 2:
            return fn_log(args[0], args[1])
        raise Unspecified('log arity')
    if name == 'atan2':
        if len(args) != 2:
            raise Unspecified('atan2 arity')
        y, x = _need_num(args[0]), _need_num(args[1])
        if num_eq(x, 0) and num_eq(y, 0):
            raise Unspecified('atan2(0, 0)')
        r = check_big(math.atan2(_f(y), _f(x)))
        return Noisy(r) if isinstance(y, Noisy) or isinstance(x, Noisy) else r
    if name in FUN1:
        if len(args) != 1:
            raise Unspecified(name)
        return FUN1[name](args[0])
    raise Unspecified('function %s' % name)


###############################################################################
# Outcome wrapper
###############################################################################

UNDEF = 'UNDEF'
UNSPEC = 'UNSPEC'
FRAGILE = 'FRAGILE'


def outcome(node, env, reading):
    """('val', v) | (UNDEF, why) | (UNSPEC, why) | (FRAGILE, '')"""
    try:
        return ('val', ev(node, env, reading))
    except Undef as e:
        return (UNDEF, str(e))
    except Unspecified as e:
        return (UNSPEC, str(e))
    except Fragile:
        return (FRAGILE, '')
    except RecursionError:
        return (UNSPEC, 'recursion')


def same_value(a, b):
    """Tolerant equality of two evaluator values. May raise Fragile."""
    if isinstance(a, bool) or isinstance(b, bool):
        return isinstance(a, bool) and isinstance(b, bool) and a == b
    if isinstance(a, (Fraction, float)) and isinstance(b, (Fraction, float)):
        return num_eq(a, b)
    if isinstance(a, str) and isinstance(b, str):
        return a == b
    if isinstance(a, dict) and isinstance(b, dict):
        return a == b
    if isinstance(a, tuple) and isinstance(b, tuple) and a and b and a[0] == b[0]:
        if a[0] == 'range':
            return num_eq(a[1], b[1]) and num_eq(a[2], b[2]) and a[3] == b[3] and a[4] == b[4]
        if a[0] == 'set':
            # sets compare as sets of values
            return all(any(_sv(x, y) for y in b[1]) for x in a[1]) and all(any(_sv(x, y) for y in a[1]) for x in b[1])
        if a[0] == 'array':
            return len(a[1]) == len(b[1]) and all(_sv(x, y) for x, y in zip(a[1], b[1]))
    return False


def _sv(x, y):
    try:
        return same_value(x, y)
    except Unspecified:
        return False


###############################################################################
# Exact constants
#
# A reference-free expression built from number literals, arithmetic operators, comparisons,
# connectives and single-valued mathematical functions denotes one machine number (or one
# truth value): the result of evaluating the tree bottom-up, operands before operators, in the
# arithmetic HPL numbers live in (Python int / IEEE double). There is nothing to tolerate
# there - no operand order to choose, no set to iterate - so a simplified constant must be
# that number, to the last bit. Anything else (sets, quantifiers, log, max/min, gcd, sum, prod,
# non-finite intermediates, raising operators) is left to the tolerant evaluator above.
###############################################################################


class NotExact(Exception):
    pass


_EXACT_FUNS = {
    'abs': abs, 'sqrt': math.sqrt, 'floor': math.floor, 'ceil': math.ceil, 'sin': math.sin, 'cos': math.cos,
    'tan': math.tan, 'asin': math.asin, 'acos': math.acos, 'atan': math.atan, 'atan2': math.atan2,
    'deg': math.degrees, 'rad': math.radians, 'int': int, 'float': float,
}


def _exact_num(v):
    if isinstance(v, bool) or not isinstance(v, (int, float)):
        raise NotExact()
    if isinstance(v, float) and (math.isnan(v) or math.isinf(v)):
        raise NotExact()
    if isinstance(v, int) and abs(v) > 1 << 200:
        raise NotExact()
    return v


def _exact(node):
    cls = type(node).__name__
    if cls == 'HplLiteral':
        v = node.value
        if isinstance(v, bool):
            return v
        return _exact_num(v)
    if cls == 'HplUnaryOperator':
        tok = node.operator.token
        v = _exact(node.operand)
        if tok == 'not':
            if not isinstance(v, bool):
                raise NotExact()
            return not v
        if tok == '-':
            return _exact_num(-_exact_num(v))
        raise NotExact()
    if cls == 'HplBinaryOperator':
        tok = node.operator.token
        a = _exact(node.operand1)
        b = _exact(node.operand2)
        if tok in ('and', 'or', 'implies', 'iff'):
            if not (isinstance(a, bool) and isinstance(b, bool)):
                raise NotExact()
            return {'and': a and b, 'or': a or b, 'implies': (not a) or b, 'iff': a == b}[tok]
        a, b = _exact_num(a), _exact_num(b)
        if tok == '+':
            return _exact_num(a + b)
        if tok == '-':
            return _exact_num(a - b)
        if tok == '*':
            return _exact_num(a * b)
        if tok == '/':
            if b == 0:
                raise NotExact()
            return _exact_num(a / b)
        if tok == '**':
            if isinstance(b, int) and abs(b) > 64 or isinstance(b, float) and abs(b) > 64:
                raise NotExact()
            if a == 0 and b < 0:
                raise NotExact()
            return _exact_num(a ** b)
        if tok == '=':
            return a == b
        if tok == '!=':
            return a != b
        if tok == '<':
            return a < b
        if tok == '<=':
            return a <= b
        if tok == '>':
            return a > b
        if tok == '>=':
            return a >= b
        raise NotExact()
    if cls == 'HplFunctionCall':
        f = _EXACT_FUNS.get(node.function.name)
        if f is None:
            raise NotExact()
        args = [_exact_num(_exact(a)) for a in node.arguments]
        return _exact_num(f(*args))
    raise NotExact()


def exact_constant(node):
    """('exact', value) when the expression denotes one exactly determined number or truth value,
    else None."""
    try:
        return ('exact', _exact(node))
    except NotExact:
        return None
    except (ArithmeticError, ValueError, TypeError, RecursionError):
        return None
