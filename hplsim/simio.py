"""I/O seams for the command-line tool (C19): file-system faults, stream faults, process stub.

SimFS     - wrappers on io.open / os.lstat / os.stat / os.readlink (only for paths under the run's
            temporary directory) and on the file objects they return; a fault plan decides which
            call fails with which errno, or delivers truncated/replaced content.
FaultyRaw - a raw byte sink that fails at a chosen byte offset (EPIPE, ENOSPC, EIO), once or for
            good, optionally after a short write; wrapped in BufferedWriter + TextIOWrapper like a
            redirected CPython stdout / stderr.
run_process - what `python -m hpl` does around cli.main: exit status from the return value /
            SystemExit / uncaught exception, traceback to stderr, flush at shutdown (failure -> 120).
"""

import errno as _errno
import io
import os
import sys
import traceback

ERRNO = {'ENOENT': _errno.ENOENT, 'EACCES': _errno.EACCES, 'EISDIR': _errno.EISDIR, 'ELOOP': _errno.ELOOP,
         'EIO': _errno.EIO, 'EMFILE': _errno.EMFILE, 'EPIPE': _errno.EPIPE, 'ENOSPC': _errno.ENOSPC}


def _oserror(name, path=None):
    code = ERRNO[name]
    cls = {'ENOENT': FileNotFoundError, 'EACCES': PermissionError, 'EISDIR': IsADirectoryError,
           'EPIPE': BrokenPipeError}.get(name, OSError)
    if path is not None:
        return cls(code, os.strerror(code), path)
    return cls(code, os.strerror(code))


###############################################################################
# File system
###############################################################################


class SimFS:
    """Counts every file-system call the CLI makes under `root`; injects per the plan.

    plan: {call_index: {'kind': 'errno', 'errno': 'EIO'} | {'kind': 'truncate', 'n': 17}
                        | {'kind': 'replace', 'text': '...'}}
    calls: list of (index, opname, path-relative) actually made (the run's I/O trace).
    """

    def __init__(self, root, plan=None, locale_encoding=None):
        self.root = os.path.realpath(root)
        # the encoding a text-mode open() WITHOUT an explicit encoding gets: the locale's, i.e. part
        # of the environment (None: whatever this process has)
        self.locale_encoding = locale_encoding
        self.locale_used = False
        self.file_type = None   # 'fifo' / 'chr': what stat() says the designated file is
        self.retype_id = None   # its (st_dev, st_ino)
        self.retyped = 0
        self.plan = {int(k): v for k, v in (plan or {}).items()}
        self.calls = []
        self.fired = []
        self.delivered = None  # text actually handed to the program by read()
        self.opened_ids = []  # (st_dev, st_ino) of every file under the root the program opened
        self.delivered_raw = False  # delivered through os.read(): bytes of a text file, newlines untranslated

    # -- bookkeeping
    def _mine(self, path):
        try:
            p = os.fspath(path)
        except TypeError:
            return False
        if isinstance(p, bytes):
            p = os.fsdecode(p)
        if not os.path.isabs(p):
            # a relative path is relative to the run's working directory
            p = os.path.abspath(p)
        return p.startswith(self.root)

    def _step(self, opname, path):
        idx = len(self.calls)
        rel = ''
        if path is not None:
            ap = os.fspath(path)
            if isinstance(ap, bytes):
                ap = os.fsdecode(ap)
            ap = os.path.abspath(ap)
            rel = ap[len(self.root):] if ap.startswith(self.root) else ap
        self.calls.append((idx, opname, rel))
        f = self.plan.get(idx)
        if f is not None:
            self.fired.append((idx, opname, f))
        return f

    # -- patched entry points
    def _lstat(self, path, *a, **kw):
        if self._mine(path):
            f = self._step('lstat', path)
            if f and f['kind'] == 'errno':
                raise _oserror(f['errno'], os.fspath(path))
        return self._retyped(self._orig['os.lstat'](path, *a, **kw))

    def _stat(self, path, *a, **kw):
        if self._mine(path):
            f = self._step('stat', path)
            if f and f['kind'] == 'errno':
                raise _oserror(f['errno'], os.fspath(path))
        return self._retyped(self._orig['os.stat'](path, *a, **kw))

    def _retyped(self, st):
        """What kind of file the argument is (as stat reports it) is part of the environment: a named
        pipe or a character device delivers its text through open/read like a regular file does.
        Only the type bits of the designated file's stat result change; nothing blocks."""
        import stat as _stat_mod
        if self.file_type and self.retype_id == (st.st_dev, st.st_ino) and _stat_mod.S_ISREG(st.st_mode):
            fields = list(st)
            fields[0] = (st.st_mode & ~_stat_mod.S_IFMT(st.st_mode)) | {'fifo': _stat_mod.S_IFIFO, 'chr': _stat_mod.S_IFCHR}[self.file_type]
            self.retyped += 1
            return os.stat_result(fields)
        return st

    def _readlink(self, path, *a, **kw):
        if self._mine(path):
            f = self._step('readlink', path)
            if f and f['kind'] == 'errno':
                raise _oserror(f['errno'], os.fspath(path))
        return self._orig['os.readlink'](path, *a, **kw)

    def _open(self, file, *a, **kw):
        if not isinstance(file, int) and self._mine(file):
            f = self._step('open', file)
            if f and f['kind'] == 'errno':
                raise _oserror(f['errno'], os.fspath(file))
            if f and f['kind'] == 'replace':
                # the file was swapped between resolve() and open()
                with self._orig['io.open'](file, 'w', encoding='utf-8') as w:
                    w.write(f['text'])
            if self.locale_encoding:
                mode = a[0] if a else kw.get('mode', 'r')
                enc = a[2] if len(a) > 2 else kw.get('encoding')
                if isinstance(mode, str) and 'b' not in mode and enc in (None, 'locale'):
                    if len(a) > 2:
                        a = a[:2] + (self.locale_encoding,) + a[3:]
                    else:
                        kw = dict(kw, encoding=self.locale_encoding)
                    self.locale_used = True
            real = self._orig['io.open'](file, *a, **kw)
            try:
                st = os.fstat(real.fileno())
                self.opened_ids.append((st.st_dev, st.st_ino))
            except (OSError, ValueError, AttributeError):
                pass
            return _FileProxy(self, real, os.fspath(file))
        return self._orig['io.open'](file, *a, **kw)

    # -- descriptor-level access (os.open / os.read / os.close): same steps, same faults
    def _os_open(self, path, flags, *a, **kw):
        if isinstance(path, int) or not self._mine(path) or (flags & (os.O_WRONLY | os.O_RDWR)):
            return self._orig['os.open'](path, flags, *a, **kw)
        f = self._step('open', path)
        if f and f['kind'] == 'errno':
            raise _oserror(f['errno'], os.fspath(path))
        if f and f['kind'] == 'replace':
            with self._orig['io.open'](path, 'w', encoding='utf-8') as w:
                w.write(f['text'])
        fd = self._orig['os.open'](path, flags, *a, **kw)
        try:
            st = os.fstat(fd)
            self.opened_ids.append((st.st_dev, st.st_ino))
        except OSError:
            pass
        self._fds[fd] = {'path': os.fspath(path), 'left': None}
        return fd

    def _os_read(self, fd, n):
        ent = self._fds.get(fd)
        if ent is None:
            return self._orig['os.read'](fd, n)
        f = self._step('read', ent['path'])
        if f and f['kind'] == 'errno':
            raise _oserror(f['errno'])
        if f and f['kind'] == 'truncate' and ent['left'] is None:
            ent['left'] = f['n']  # the file ends after n more bytes
        data = self._orig['os.read'](fd, n)
        if ent['left'] is not None:
            data = data[:ent['left']]
            ent['left'] -= len(data)
        if data:
            prev = self.delivered
            self.delivered = data if not isinstance(prev, bytes) else prev + data
            self.delivered_raw = True
        elif self.delivered is None:
            self.delivered = b''
            self.delivered_raw = True
        return data

    def _fileio_class(self):
        """io.FileIO over a descriptor this seam handed out: reads are steps like any other."""
        fs = self
        base = self._orig['io.FileIO']

        class SimFileIO(base):
            def _ent(self_f):
                try:
                    return fs._fds.get(base.fileno(self_f))
                except (ValueError, OSError):
                    return None

            def _deliver(self_f, ent, data):
                if ent['left'] is not None:
                    data = data[:ent['left']]
                    ent['left'] -= len(data)
                prev = fs.delivered
                fs.delivered = bytes(data) if not isinstance(prev, bytes) else prev + bytes(data)
                fs.delivered_raw = True
                return data

            def _pre(self_f, ent):
                f = fs._step('read', ent['path'])
                if f and f['kind'] == 'errno':
                    raise _oserror(f['errno'])
                if f and f['kind'] == 'truncate' and ent['left'] is None:
                    ent['left'] = f['n']

            def readinto(self_f, b):
                ent = self_f._ent()
                if ent is None:
                    return base.readinto(self_f, b)
                self_f._pre(ent)
                n = base.readinto(self_f, b)
                if n:
                    data = self_f._deliver(ent, bytes(memoryview(b)[:n]))
                    n = len(data)
                elif fs.delivered is None:
                    fs.delivered = b''
                    fs.delivered_raw = True
                return n

            def read(self_f, size=-1):
                ent = self_f._ent()
                if ent is None:
                    return base.read(self_f, size)
                self_f._pre(ent)
                data = base.read(self_f, size)
                return self_f._deliver(ent, data) if data else (data if fs.delivered is not None else self_f._deliver(ent, b''))

            def readall(self_f):
                return self_f.read(-1)

            def close(self_f):
                ent = None if self_f.closed else self_f._ent()
                fd = None
                if ent is not None:
                    fd = base.fileno(self_f)
                base.close(self_f)
                if ent is not None:
                    fs._fds.pop(fd, None)
                    f = fs._step('close', ent['path'])
                    if f and f['kind'] == 'errno':
                        raise _oserror(f['errno'])

        return SimFileIO

    def _os_close(self, fd):
        ent = self._fds.pop(fd, None)
        if ent is None:
            return self._orig['os.close'](fd)
        f = self._step('close', ent['path'])
        self._orig['os.close'](fd)
        if f and f['kind'] == 'errno':
            raise _oserror(f['errno'])

    def __enter__(self):
        import builtins
        self._orig = {'os.lstat': os.lstat, 'os.stat': os.stat, 'os.readlink': os.readlink, 'io.open': io.open,
                      'builtins.open': builtins.open, 'os.open': os.open, 'os.read': os.read, 'os.close': os.close,
                      'io.FileIO': io.FileIO}
        self._fds = {}
        io.FileIO = self._fileio_class()
        os.lstat = self._lstat
        os.stat = self._stat
        os.readlink = self._readlink
        io.open = self._open
        builtins.open = self._open
        os.open = self._os_open
        os.read = self._os_read
        os.close = self._os_close
        return self

    def __exit__(self, *exc):
        import builtins
        os.lstat = self._orig['os.lstat']
        os.stat = self._orig['os.stat']
        os.readlink = self._orig['os.readlink']
        io.open = self._orig['io.open']
        builtins.open = self._orig['builtins.open']
        os.open = self._orig['os.open']
        os.read = self._orig['os.read']
        os.close = self._orig['os.close']
        io.FileIO = self._orig['io.FileIO']
        return False


class _FileProxy:
    def __init__(self, fs, real, path):
        self._fs = fs
        self._real = real
        self._path = path

    def __enter__(self):
        return self

    def __exit__(self, *exc):
        self.close()
        return False

    def read(self, *a):
        f = self._fs._step('read', self._path)
        if f and f['kind'] == 'errno':
            raise _oserror(f['errno'])
        data = self._real.read(*a)
        if f and f['kind'] == 'truncate' and isinstance(data, (str, bytes)):
            data = data[:f['n']]
        if isinstance(data, (str, bytes)):
            prev = self._fs.delivered
            self._fs.delivered = data if prev is None or type(prev) is not type(data) else prev + data
        return data

    def close(self):
        if self._real.closed:
            return
        f = self._fs._step('close', self._path)
        self._real.close()
        if f and f['kind'] == 'errno':
            raise _oserror(f['errno'])

    def __getattr__(self, name):
        return getattr(self._real, name)

    def __iter__(self):
        return iter(self._real)


###############################################################################
# Streams
###############################################################################


_OS_WRITE = os.write


class FaultyRaw(io.RawIOBase):
    """fault: None or {'offset': N, 'errno': 'ENOSPC', 'persistent': bool, 'short': bool}

    Backed by a real (anonymous, in-memory) file descriptor so that code which works on
    `stream.fileno()` - e.g. the documented SIGPIPE recipe `os.dup2(devnull, sys.stdout.fileno())` -
    behaves as it would on a real stream: bytes written after such a redirection are lost.
    """

    def __init__(self, name, fault=None):
        io.RawIOBase.__init__(self)
        self.name_ = name
        self.fault = dict(fault) if fault else None
        self._fd = os.memfd_create('hplsim_' + name)
        self._keep = os.dup(self._fd)  # survives a dup2() over the public descriptor
        self.accepted = 0
        self.short_accepts = 0
        self.fired = 0
        self.write_calls = 0
        self._armed = fault is not None
        self.tty = False  # set by the scenario: a terminal (line-buffered text layer, isatty() true)

    def writable(self):
        return True

    def fileno(self):
        return self._fd

    def isatty(self):
        return self.tty

    def write(self, b):
        self.write_calls += 1
        b = bytes(b)
        if self._armed:
            room = self.fault['offset'] - self.accepted
            if room > 0 and len(b) > room and self.fault.get('short', False):
                # short write: accept what fits; the caller's next write hits the fault
                _OS_WRITE(self._fd, b[:room])
                self.accepted += room
                self.short_accepts += 1
                return room
            if room <= 0 or len(b) > room:
                self.fired += 1
                if not self.fault.get('persistent', True):
                    self._armed = False
                raise _oserror(self.fault['errno'])
        _OS_WRITE(self._fd, b)
        self.accepted += len(b)
        return len(b)

    @property
    def data(self):
        size = os.fstat(self._keep).st_size
        return os.pread(self._keep, size, 0) if size else b''

    def text(self):
        return self.data.decode('utf-8', errors='replace')

    def release(self):
        for fd in (self._fd, self._keep):
            try:
                os.close(fd)
            except OSError:
                pass


def make_stream(raw, buffer_size=8192, line_buffering=False, encoding='utf-8', errors='backslashreplace'):
    if buffer_size == 0:
        # PYTHONUNBUFFERED / -u: the text layer writes straight through to the raw file
        return io.TextIOWrapper(raw, encoding=encoding, errors=errors, line_buffering=False,
                                write_through=True)
    return io.TextIOWrapper(io.BufferedWriter(raw, buffer_size=buffer_size), encoding=encoding,
                            errors=errors, line_buffering=line_buffering, write_through=False)


###############################################################################
# Process stub
###############################################################################


class ProcessResult:
    __slots__ = ('status', 'stdout', 'stderr', 'handler', 'uncaught', 'flush_failed', 'out_bytes', 'err_bytes', 'stdout_is_utf8')

    def __init__(self):
        self.status = None
        self.stdout = ''
        self.stderr = ''
        self.handler = None
        self.uncaught = None
        self.flush_failed = False


def run_process(main, argv, out_raw, err_raw, out_buffer=8192, err_line_buffered=True, wrapper=None,
                out_encoding=('utf-8', 'strict')):
    """Run main(argv) the way `python -m hpl` would. `wrapper` is a context manager factory used to
    install further injectors (file system, interrupter) around the call."""
    res = ProcessResult()
    # CPython: stdout encodes with the locale's encoding and 'strict' (surrogateescape under the C
    # locale); stderr always uses 'backslashreplace'
    new_out = make_stream(out_raw, buffer_size=out_buffer, encoding=out_encoding[0], errors=out_encoding[1],
                          line_buffering=bool(getattr(out_raw, 'tty', False)) and out_buffer != 0)
    new_err = make_stream(err_raw, buffer_size=1, line_buffering=err_line_buffered)
    old = (sys.stdout, sys.stderr)
    sys.stdout, sys.stderr = new_out, new_err

    def device_write(fd, data):
        # a program that writes to the descriptor of a standard stream writes to the same device
        for raw in (out_raw, err_raw):
            if fd == raw._fd and isinstance(fd, int):
                return raw.write(data)
        return _OS_WRITE(fd, data)
    os.write = device_write
    try:
        try:
            if wrapper is not None:
                with wrapper():
                    rc = main(argv)
            else:
                rc = main(argv)
            status = _exit_status(rc)
        except SystemExit as e:
            status = _exit_status(e.code)
        except KeyboardInterrupt as e:
            res.uncaught = 'KeyboardInterrupt'
            _print_uncaught(e)
            status = 130
        except BaseException as e:
            res.uncaught = type(e).__name__
            _print_uncaught(e)
            status = 1
        # interpreter shutdown: flush standard streams; a failing flush of stdout or stderr
        # turns the exit status into 120
        for st in (sys.stderr, sys.stdout):
            try:
                st.flush()
            except BaseException:
                res.flush_failed = True
        if res.flush_failed:
            status = 120
    finally:
        sys.stdout, sys.stderr = old
        os.write = _OS_WRITE
    res.status = status
    try:
        out_raw.data.decode('utf-8')
        res.stdout_is_utf8 = True
    except UnicodeDecodeError:
        res.stdout_is_utf8 = False
    res.stdout = out_raw.text()
    res.stderr = err_raw.text()
    res.out_bytes = len(out_raw.data)
    res.err_bytes = len(err_raw.data)
    # detach without flushing again
    for st in (new_out, new_err):
        try:
            st.detach()
        except BaseException:
            pass
    out_raw.release()
    err_raw.release()
    return res


def _exit_status(code):
    if code is None:
        return 0
    if isinstance(code, bool):
        return int(code)
    if isinstance(code, int):
        return code & 0xFF
    try:
        sys.stderr.write(str(code) + '\n')
    except BaseException:
        pass
    return 1


def _print_uncaught(e):
    try:
        traceback.print_exception(type(e), e, e.__traceback__, file=sys.stderr)
    except BaseException:
        pass
