"""Soundness gates for the machinery itself (DESIGN 8).

check.py selftest determinism [--runs N]    same seeds twice, other worker counts, fresh interpreters,
                                            another PYTHONHASHSEED: event-log digests must agree
check.py selftest mutants [--only NAME]     every breaking patch in /verif/mutants must be reported by
                                            its property's check within a small budget, no benign one
check.py selftest findings                  every witness under /verif/findings fails on the commit
                                            before its fix and passes on the current tree
check.py selftest seeded                    every kept change under /verif/seeded/<id>/ is detected
check.py selftest benign                    every property-preserving change under /verif/benign/<id>/ stays silent
"""

import argparse
import json
import os
import shutil
import subprocess
import sys
import tempfile
import time

from hplsim import core

CHECKS = ('C07', 'C08', 'C12', 'C16', 'C19')
RUNS = {'C07': 64, 'C08': 400, 'C12': 600, 'C16': 300, 'C19': 24}
MUT_RUNS = {'C07': 500, 'C08': 16000, 'C12': 20000, 'C16': 3000, 'C19': 96}


def _run(cmd, env=None, timeout=1200):
    e = dict(os.environ)
    e.update(env or {})
    p = subprocess.run(cmd, env=e, capture_output=True, text=True, timeout=timeout)
    return p.returncode, p.stdout, p.stderr


def _check_cmd(cid, *extra):
    return [sys.executable, os.path.join(core.VERIF, 'check.py'), cid] + list(extra)


###############################################################################
# determinism
###############################################################################


def digests(cid, runs, env):
    scratch = tempfile.mkdtemp(prefix='hplsim_det_')
    try:
        rc, out, err = _run(_check_cmd(cid, '--tier', 'quick', '--runs', str(runs), '--digests'),
                            env=dict(env, HPLSIM_NO_VERIFY='1', HPLSIM_EVIDENCE_DIR=os.path.join(scratch, 'evidence'),
                                     HPLSIM_REPLAY_DIR=os.path.join(scratch, 'replays')))
    finally:
        shutil.rmtree(scratch, ignore_errors=True)
    if rc not in (0, 1):
        raise core.HarnessError('%s --digests failed (%d): %s' % (cid, rc, (out + err)[-600:]))
    d = {}
    for ln in out.splitlines():
        if ln.startswith('DIGEST '):
            _t, idx, g, e = ln.split()
            d[int(idx)] = (g, e)
    return d


def determinism(args):
    problems = []
    total = 0
    for cid in CHECKS:
        runs = args.runs or RUNS[cid]
        base = digests(cid, runs, {'HPLSIM_NPROC': '16'})
        again = digests(cid, runs, {'HPLSIM_NPROC': '16'})
        three = digests(cid, runs, {'HPLSIM_NPROC': '3'})
        other = digests(cid, runs, {'HPLSIM_NPROC': '16', 'HPLSIM_HASHSEED': '4242', 'PYTHONHASHSEED': '4242'})
        total += len(base)
        if len(base) < runs:
            problems.append('%s: only %d of %d digests came back' % (cid, len(base), runs))
        for name, d, full in (('same seed, second execution', again, True), ('3 workers instead of 16', three, True),
                              ('PYTHONHASHSEED=4242', other, cid == 'C12')):
            bad = [i for i in base if d.get(i) is None or d[i][0] != base[i][0] or (full and d[i][1] != base[i][1])]
            if bad:
                problems.append('%s: %d of %d runs differ under "%s" (first: run %d)' % (cid, len(bad), len(base), name, bad[0]))
        print('determinism %s: %d runs x 4 executions compared' % (cid, len(base)))
    for p in problems:
        print('NONDETERMINISM: ' + p)
    print('determinism: %d runs, %d problems' % (total, len(problems)))
    return 0 if not problems else 2


###############################################################################
# mutants
###############################################################################


def scratch_with_patch(patch_path):
    """Copy /repo/src to a scratch directory outside /repo and /verif and apply the patch there."""
    root = tempfile.mkdtemp(prefix='hplsim_mut_')
    shutil.copytree(os.path.join('/repo', 'src'), os.path.join(root, 'src'), ignore=shutil.ignore_patterns('__pycache__', '*.egg-info'))
    rc, out, err = _run(['patch', '-p1', '-s', '-d', root, '-i', patch_path])
    if rc != 0:
        shutil.rmtree(root, ignore_errors=True)
        raise core.HarnessError('patch %s does not apply: %s' % (patch_path, out + err))
    return root


def mutants(args):
    mdir = os.path.join(core.VERIF, 'mutants')
    index = json.load(open(os.path.join(mdir, 'index.json')))
    problems = []
    rows = []
    for m in index:
        if args.only and args.only not in m['name']:
            continue
        try:
            root = scratch_with_patch(os.path.join(mdir, m['name'] + '.patch'))
        except core.HarnessError as e:
            problems.append('%s: %s' % (m['name'], str(e)[:300]))
            continue
        try:
            t0 = time.monotonic()
            env = {'HPLSIM_SRC': os.path.join(root, 'src'), 'HPLSIM_NO_VERIFY': '1', 'HPLSIM_EVIDENCE_DIR': os.path.join(root, 'evidence'),
                   'HPLSIM_REPLAY_DIR': os.path.join(root, 'replays')}
            rc, out, err = _run(_check_cmd(m['property'], '--tier', 'quick', '--runs', str(args.runs or MUT_RUNS[m['property']])), env=env)
            dt = time.monotonic() - t0
            tests = ''
            if args.tests:
                trc, tout, terr = _run([sys.executable, '-m', 'pytest', '-q', '-x', '-p', 'no:cacheprovider', '/repo/tests'],
                                       env={'PYTHONPATH': os.path.join(root, 'src')}, timeout=900)
                tests = 'tests pass' if trc == 0 else 'tests FAIL'
            want = 1 if m['kind'] == 'breaking' else 0
            ok = rc == want
            first = next((ln for ln in out.splitlines() if ln.startswith('  ')), '').strip()[:140]
            rows.append((m['name'], m['kind'], rc, round(dt, 1), tests, first))
            print('%-52s %-8s exit=%d %5.1fs %s %s' % (m['name'], m['kind'], rc, dt, tests, first if rc == 1 else ''))
            if not ok:
                problems.append('%s (%s): exit %d, expected %d\n%s' % (m['name'], m['kind'], rc, want, (out + err)[-700:]))
        finally:
            shutil.rmtree(root, ignore_errors=True)
    for p in problems:
        print('MUTANT-PROBLEM: ' + p)
    print('mutants: %d run, %d problems' % (len(rows), len(problems)))
    return 0 if not problems else 2


###############################################################################
# findings: witnesses fail before their fix, pass now
###############################################################################


def findings(args):
    kf = json.load(open(core.KNOWN_FINDINGS))
    problems = []
    for f in kf['findings']:
        if f.get('status') != 'fixed':
            continue
        wit = os.path.join(core.VERIF, f['witness'])
        prop = f['property']
        # now: must pass
        rc, out, err = _run(_check_cmd(prop, '--replay', wit))
        if rc != 0:
            problems.append('%s: witness still fails on the current tree (exit %d)' % (f['witness'], rc))
        # before the fix: must fail. A scratch worktree of the parent commit, outside /repo and /verif.
        root = tempfile.mkdtemp(prefix='hplsim_wt_')
        try:
            os.rmdir(root)
            rc0, o0, e0 = _run(['git', '-C', '/repo', 'worktree', 'add', '--detach', root, f['commit'] + '^'])
            if rc0 != 0:
                problems.append('%s: cannot create worktree of %s^: %s' % (f['witness'], f['commit'], e0[-300:]))
                continue
            rc1, out1, err1 = _run(_check_cmd(prop, '--replay', wit), env={'HPLSIM_SRC': os.path.join(root, 'src')})
            if rc1 != 1:
                problems.append('%s: witness does not fail before %s (exit %d): %s' % (f['witness'], f['commit'], rc1, (out1 + err1)[-300:]))
            print('finding %-48s before %s: exit %d, now: exit %d' % (os.path.basename(f['witness']), f['commit'], rc1, rc))
        finally:
            _run(['git', '-C', '/repo', 'worktree', 'remove', '--force', root])
            shutil.rmtree(root, ignore_errors=True)
    for p in problems:
        print('FINDING-PROBLEM: ' + p)
    print('findings: %d problems' % len(problems))
    return 0 if not problems else 2


###############################################################################
# seeded changes kept under /verif/seeded
###############################################################################


def benign(args):
    """Independently written changes that PRESERVE their property: the check must stay silent."""
    args.dir = 'benign'
    return seeded(args)


def seeded(args):
    sdir = os.path.join(core.VERIF, getattr(args, 'dir', None) or 'seeded')
    problems = []
    if not os.path.isdir(sdir):
        print('no seeded changes yet')
        return 0
    for name in sorted(os.listdir(sdir)):
        d = os.path.join(sdir, name)
        meta_p = os.path.join(d, 'meta.json')
        patch_p = os.path.join(d, 'patch.diff')
        if not (os.path.isfile(meta_p) and os.path.isfile(patch_p)):
            continue
        if args.only and args.only not in name:
            continue
        meta = json.load(open(meta_p))
        root = scratch_with_patch(patch_p)
        try:
            env = {'HPLSIM_SRC': os.path.join(root, 'src'), 'HPLSIM_NO_VERIFY': '1', 'HPLSIM_EVIDENCE_DIR': os.path.join(root, 'evidence'),
                   'HPLSIM_REPLAY_DIR': os.path.join(root, 'replays')}
            t0 = time.monotonic()
            rc, out, err = _run(_check_cmd(meta['property'], '--tier', 'quick'), env=env)
            first = next((ln for ln in out.splitlines() if ln.startswith('  ')), '').strip()[:140]
            print('%-40s %s exit=%d %5.1fs %s' % (name, meta['property'], rc, time.monotonic() - t0, first))
            expect = 1 if meta.get('expected_detected', True) else 0
            if rc != expect:
                problems.append('%s: exit %d, expected %d' % (name, rc, expect))
        finally:
            shutil.rmtree(root, ignore_errors=True)
    for p in problems:
        print('SEEDED-PROBLEM: ' + p)
    print('seeded: %d problems' % len(problems))
    return 0 if not problems else 2


def main(argv):
    ap = argparse.ArgumentParser(prog='check.py selftest')
    ap.add_argument('what', choices=('determinism', 'mutants', 'findings', 'seeded', 'benign'))
    ap.add_argument('--runs', type=int)
    ap.add_argument('--only')
    ap.add_argument('--tests', action='store_true', help='also run the repository test suite against each mutant')
    args = ap.parse_args(argv)
    return {'determinism': determinism, 'mutants': mutants, 'findings': findings, 'seeded': seeded, 'benign': benign}[args.what](args)
