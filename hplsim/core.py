"""Shared machinery: seeds, choice log, pool runner, replay files, ddmin, evidence, exit contract.

Nothing in here reads a clock or draws randomness on behalf of a simulated run except through
`Sim`; wall-clock reads are used only for budgets and for the evidence's throughput numbers.
"""

import concurrent.futures
import faulthandler
import hashlib
import json
import multiprocessing
import os
import random
import subprocess
import sys
import time
import traceback

VERIF = os.path.dirname(os.path.dirname(os.path.abspath(__file__)))
EVIDENCE_DIR = os.environ.get('HPLSIM_EVIDENCE_DIR') or os.path.join(VERIF, 'evidence')
REPLAY_DIR = os.environ.get('HPLSIM_REPLAY_DIR') or os.path.join(VERIF, 'replays')
KNOWN_FINDINGS = os.path.join(VERIF, 'known_findings.json')
SRC = os.environ.get('HPLSIM_SRC', '/repo/src')
DEFAULT_SEED = 20261001
PINNED_HASHSEED = '0'

EXIT_OK = 0
EXIT_VIOLATION = 1
EXIT_HARNESS = 2


###############################################################################
# Bootstrap
###############################################################################


def bootstrap(hashseed=None):
    """Pin PYTHONHASHSEED by re-exec, put the source root first on sys.path.

    Hash order is therefore never ambient: it is a recorded constant of the run.
    """
    want = hashseed if hashseed is not None else os.environ.get('HPLSIM_HASHSEED', PINNED_HASHSEED)
    # HPLSIM_PYOPT=1: run the library the way `python -O` / PYTHONOPTIMIZE=1 deployments do (asserts
    # stripped); a configuration, recorded in replay files like the hash seed
    want_opt = 1 if os.environ.get('HPLSIM_PYOPT') == '1' else 0
    if os.environ.get('PYTHONHASHSEED') != want or sys.flags.optimize != want_opt:
        env = dict(os.environ)
        env['PYTHONHASHSEED'] = want
        env['PYTHONDONTWRITEBYTECODE'] = '1'
        env.pop('PYTHONOPTIMIZE', None)
        argv = [sys.executable] + (['-O'] if want_opt else []) + sys.argv
        os.execve(sys.executable, argv, env)
    sys.dont_write_bytecode = True
    if SRC in sys.path:
        sys.path.remove(SRC)
    sys.path.insert(0, SRC)
    faulthandler.enable()


def master_seed():
    try:
        return int(os.environ.get('VERIF_SEED', DEFAULT_SEED))
    except ValueError:
        return DEFAULT_SEED


def tier_from_env(default='quick'):
    t = os.environ.get('VERIF_TIER', default)
    return t if t in ('quick', 'thorough') else default


def derive(*parts):
    h = hashlib.sha256(repr(parts).encode()).digest()
    return int.from_bytes(h[:8], 'big')


###############################################################################
# The one source of choices inside a run
###############################################################################


class Sim:
    """A seeded PRNG whose every draw is logged before it is used."""

    __slots__ = ('seed', 'rng', 'log', 'hasher')

    def __init__(self, seed):
        self.seed = seed
        self.rng = random.Random(seed)
        self.log = []
        self.hasher = hashlib.sha256()

    def _rec(self, label, value):
        self.hasher.update(repr((label, value)).encode())
        if len(self.log) < 4000:
            self.log.append((label, value))

    def choose(self, label, n):
        v = self.rng.randrange(n)
        self._rec(label, v)
        return v

    def coin(self, label, p=0.5):
        v = self.rng.random() < p
        self._rec(label, v)
        return v

    def pick(self, label, seq):
        i = self.rng.randrange(len(seq))
        self._rec(label, i)
        return seq[i]

    def weighted(self, label, pairs):
        """pairs: [(weight, value)]"""
        total = sum(w for w, _ in pairs)
        r = self.rng.random() * total
        acc = 0.0
        for i, (w, v) in enumerate(pairs):
            acc += w
            if r < acc:
                self._rec(label, i)
                return v
        self._rec(label, len(pairs) - 1)
        return pairs[-1][1]

    def permutation(self, label, n):
        p = list(range(n))
        self.rng.shuffle(p)
        self._rec(label, tuple(p))
        return p

    def randint(self, label, a, b):
        v = self.rng.randint(a, b)
        self._rec(label, v)
        return v

    def subseed(self, label):
        v = self.rng.getrandbits(48)
        self._rec(label, v)
        return v

    def note(self, label, value):
        """Record an observed (non-random) event in the run's event log."""
        self._rec(label, value)

    def digest(self):
        return self.hasher.hexdigest()


###############################################################################
# Pool runner
###############################################################################


def _worker_entry(args):
    fn, job, wall_cap = args
    faulthandler.enable()
    # a hung worker dumps its stack and dies rather than hanging the pool forever
    faulthandler.dump_traceback_later(wall_cap, exit=True)
    try:
        return ('ok', fn(job))
    except BaseException:  # noqa: harness errors are reported, never swallowed
        return ('harness_error', traceback.format_exc())
    finally:
        faulthandler.cancel_dump_traceback_later()


def run_pool(fn, jobs, nproc=None, wall_cap=900):
    """Run fn(job) for every job in forked workers. Returns list of results in job order.

    Raises HarnessError if any worker failed or timed out: a harness problem is never a pass.
    """
    if nproc is None:
        nproc = int(os.environ.get('HPLSIM_NPROC', '0')) or min(16, os.cpu_count() or 1)
    if nproc <= 1 or len(jobs) <= 1:
        out = []
        for job in jobs:
            st, res = _worker_entry((fn, job, wall_cap))
            if st != 'ok':
                raise HarnessError(res)
            out.append(res)
        return out
    ctx = multiprocessing.get_context('fork')
    out = [None] * len(jobs)
    with concurrent.futures.ProcessPoolExecutor(max_workers=nproc, mp_context=ctx) as ex:
        futs = {ex.submit(_worker_entry, (fn, job, wall_cap)): i for i, job in enumerate(jobs)}
        try:
            for fut in concurrent.futures.as_completed(futs, timeout=wall_cap + 30):
                st, res = fut.result()
                if st != 'ok':
                    raise HarnessError(res)
                out[futs[fut]] = res
        except concurrent.futures.TimeoutError:
            for p in list(getattr(ex, '_processes', {}).values()):
                try:
                    p.kill()
                except Exception:
                    pass
            raise HarnessError('worker pool timed out after %ss' % wall_cap)
        except concurrent.futures.process.BrokenProcessPool as e:
            raise HarnessError('a worker died: %r' % (e,))
    return out


class HarnessError(Exception):
    pass


class IsolatedDied(HarnessError):
    """The isolated child ended without a result (killed by a hard CPU limit, crashed). `.progress`
    holds the records it reported with core.progress() before dying."""

    def __init__(self, msg, progress):
        HarnessError.__init__(self, msg)
        self.progress = progress


_progress_fd = [None]


def progress(obj):
    """Inside an isolated child: report a progress record to the parent (survives a hard kill)."""
    fd = _progress_fd[0]
    if fd is not None:
        import pickle
        data = pickle.dumps(('progress', obj))
        os.write(fd, len(data).to_bytes(4, 'big') + data)


def run_isolated(fn, *args):
    """Run fn(*args) in a child forked from this process and return its (pickled) result.

    Line-event streams inside lark/attrs depend, by a few events, on what the process has parsed
    before (lazily built structures, dict resize histories). Forking every run off the same
    prepared template process makes one seed one exactly repeatable execution, whatever the
    worker ran earlier and however many workers there are.
    """
    import pickle
    r, w = os.pipe()
    pid = os.fork()
    if pid == 0:
        code = 1
        try:
            os.close(r)
            _progress_fd[0] = w
            # an injected exception that lands inside a generator's finaliser is reported by the
            # interpreter as "Exception ignored in ..." on stderr: noise, not a result
            sys.unraisablehook = lambda *a: None
            try:
                res = ('ok', fn(*args))
            except BaseException:
                res = ('err', traceback.format_exc())
            data = pickle.dumps(res)
            os.write(w, len(data).to_bytes(4, 'big'))
            view = memoryview(data)
            while view:
                n = os.write(w, view[:65536])
                view = view[n:]
            code = 0
        finally:
            os._exit(code)
    os.close(w)
    with os.fdopen(r, 'rb') as f:
        raw = f.read()
    os.waitpid(pid, 0)
    records = []
    pos = 0
    while pos + 4 <= len(raw):
        n = int.from_bytes(raw[pos:pos + 4], 'big')
        if pos + 4 + n > len(raw):
            break
        records.append(pickle.loads(raw[pos + 4:pos + 4 + n]))
        pos += 4 + n
    prog = [rec[1] for rec in records if rec[0] == 'progress']
    final = [rec for rec in records if rec[0] in ('ok', 'err')]
    if not final:
        raise IsolatedDied('isolated run died without a result', prog)
    st, res = final[-1]
    if st != 'ok':
        raise HarnessError(res)
    return res


def chunk(seq, n):
    """Split seq into n round-robin chunks (deterministic)."""
    n = max(1, n)
    return [seq[i::n] for i in range(n) if seq[i::n]]


###############################################################################
# ddmin
###############################################################################


def ddmin(items, fails, budget=200):
    """Classic delta debugging on a list. fails(sublist) -> bool. Returns a 1-minimal-ish sublist.

    Budgeted: stops after `budget` calls of `fails`.
    """
    calls = [0]

    def test(c):
        calls[0] += 1
        return fails(c)

    n = 2
    items = list(items)
    while len(items) >= 2 and calls[0] < budget:
        size = max(1, len(items) // n)
        subsets = [items[i:i + size] for i in range(0, len(items), size)]
        reduced = False
        for i, s in enumerate(subsets):
            if calls[0] >= budget:
                break
            comp = [x for j, t in enumerate(subsets) if j != i for x in t]
            if comp and test(comp):
                items = comp
                n = max(n - 1, 2)
                reduced = True
                break
        if not reduced:
            if n >= len(items):
                break
            n = min(len(items), n * 2)
    return items


###############################################################################
# Replay files, known findings
###############################################################################


def write_replay(prop, name, payload):
    d = os.path.join(REPLAY_DIR, prop)
    os.makedirs(d, exist_ok=True)
    path = os.path.join(d, name + '.json')
    payload = dict(payload)
    payload.setdefault('property', prop)
    payload.setdefault('pythonhashseed', os.environ.get('PYTHONHASHSEED'))
    payload.setdefault('python_optimize', int(sys.flags.optimize))
    with open(path, 'w') as f:
        json.dump(payload, f, indent=1, sort_keys=True, default=repr)
        f.write('\n')
    return path


def load_replay(path):
    with open(path) as f:
        return json.load(f)


def load_known_findings(prop):
    try:
        with open(KNOWN_FINDINGS) as f:
            data = json.load(f)
    except FileNotFoundError:
        return []
    return [e for e in data.get('findings', []) if e.get('property') == prop and e.get('status') == 'known']


def verify_replay_fresh(check_id, path, expect_class, timeout=300):
    """Re-execute a replay file in a fresh interpreter; it must fail the same way."""
    cmd = [sys.executable, os.path.join(VERIF, 'check.py'), check_id, '--replay', path]
    env = dict(os.environ)
    env['HPLSIM_NO_VERIFY'] = '1'
    try:
        p = subprocess.run(cmd, env=env, capture_output=True, text=True, timeout=timeout)
    except subprocess.TimeoutExpired:
        return False, 'replay timed out'
    marker = 'REPLAY-RESULT class=%s' % expect_class
    ok = (p.returncode == EXIT_VIOLATION) and (marker in p.stdout)
    return ok, p.stdout[-2000:] + p.stderr[-2000:]


###############################################################################
# Warnings filter (an environment choice of a run, applied around library calls only)
###############################################################################


class warnings_filter:
    """`with core.warnings_filter('error'):` = the library runs as under python -W error /
    PYTHONWARNINGS=error / pytest's filterwarnings = error. None or 'default': nothing changes."""

    def __init__(self, mode):
        self.mode = mode
        self._cm = None

    def __enter__(self):
        if self.mode == 'error':
            import warnings
            self._cm = warnings.catch_warnings()
            self._cm.__enter__()
            warnings.simplefilter('error')
        return self

    def __exit__(self, *exc):
        if self._cm is not None:
            self._cm.__exit__(*exc)
        return False


###############################################################################
# Interpreter-configuration slices
###############################################################################

# The interpreter the library is deployed under is part of the environment a run meets, like the
# hash seed: `python -O` / PYTHONOPTIMIZE=1 strips every assert statement (and whatever was
# computed inside one). A slice re-runs the same check, other run indices, under that
# configuration in a subprocess; its replay files record the configuration and replay under it.
SLICE_CONFIGS = (
    {'name': 'python -O (asserts stripped)', 'env': {'HPLSIM_PYOPT': '1'}},
)


def run_config_slices(prop, tier, runs, new, known_hits, harness_errors, offset=20_000_000, timeout=900):
    """Appends the slices' violations / known findings / harness errors to the caller's lists;
    returns the list of slice descriptions for the evidence file."""
    import tempfile
    import shutil
    if os.environ.get('HPLSIM_SLICE') or os.environ.get('HPLSIM_NO_SLICES') or runs <= 0:
        return []
    infos = []
    for i, cfg in enumerate(SLICE_CONFIGS):
        tmp = tempfile.mkdtemp(prefix='hplsim_slice_')
        try:
            env = dict(os.environ)
            env.update(cfg['env'])
            env['HPLSIM_SLICE'] = '1'
            env['HPLSIM_EVIDENCE_DIR'] = tmp
            cmd = [sys.executable, os.path.join(VERIF, 'check.py'), prop, '--tier', tier, '--runs', str(runs),
                   '--offset', str(offset * (i + 1))]
            t0 = time.monotonic()
            try:
                p = subprocess.run(cmd, env=env, capture_output=True, text=True, timeout=timeout)
            except subprocess.TimeoutExpired:
                harness_errors.append('slice "%s" timed out' % cfg['name'])
                continue
            lines = p.stdout.splitlines()
            nviol = 0
            for j, ln in enumerate(lines):
                if ln.startswith('VIOLATION property=%s replay=' % prop):
                    path = ln.split('replay=', 1)[1].strip()
                    desc = lines[j + 1].strip() if j + 1 < len(lines) and lines[j + 1].startswith('  ') else ''
                    new.append((path, '[%s] %s' % (cfg['name'], desc)))
                    nviol += 1
                elif ln.startswith('KNOWN-FINDING: property=%s ' % prop):
                    what = ln.split(' ', 2)[2]
                    if what not in known_hits:
                        known_hits.append(what)
                elif ln.startswith('HARNESS-ERROR:'):
                    harness_errors.append('slice "%s": %s' % (cfg['name'], ln[:600]))
            if p.returncode not in (EXIT_OK, EXIT_VIOLATION) and not any('slice "%s"' % cfg['name'] in h for h in harness_errors):
                harness_errors.append('slice "%s" exited %d: %s' % (cfg['name'], p.returncode, (p.stdout + p.stderr)[-600:]))
            info = {'configuration': cfg['name'], 'runs_requested': runs, 'violations': nviol,
                    'wall_seconds': round(time.monotonic() - t0, 1), 'exit': p.returncode}
            try:
                with open(os.path.join(tmp, prop + '.json')) as f:
                    ev = json.load(f)
                cov = ev.get('coverage', {})
                info['runs'] = cov.get('runs')
                info['cases'] = cov.get('evaluations')
            except (OSError, ValueError):
                pass
            infos.append(info)
        finally:
            shutil.rmtree(tmp, ignore_errors=True)
    return infos


###############################################################################
# Evidence
###############################################################################


def write_evidence(prop, tier, seed, level, coverage, wall_s, violations, assumptions):
    os.makedirs(EVIDENCE_DIR, exist_ok=True)
    doc = {
        'property_id': prop,
        'tier': tier,
        'seed': int(seed),
        'level': level,
        'coverage': coverage,
        'assumptions': assumptions,
        'wall_s': round(float(wall_s), 3),
        'violations': int(violations),
    }
    path = os.path.join(EVIDENCE_DIR, prop + '.json')
    tmp = path + '.tmp'
    with open(tmp, 'w') as f:
        json.dump(doc, f, indent=1, sort_keys=True, default=repr)
        f.write('\n')
    os.replace(tmp, path)
    return path


def merge_counts(dst, src):
    for k, v in src.items():
        if isinstance(v, dict):
            merge_counts(dst.setdefault(k, {}), v)
        elif isinstance(v, (int, float)):
            dst[k] = dst.get(k, 0) + v
        else:
            dst.setdefault(k, v)
    return dst


###############################################################################
# Reporting contract
###############################################################################


def finish(prop, violations_new, known_hits, harness_errors=()):
    """Print the contract lines and return the exit code.

    violations_new: list of (replay_path, description)
    known_hits: list of description strings for findings listed in known_findings.json
    """
    for what in known_hits:
        print('KNOWN-FINDING: property=%s %s' % (prop, what))
    for h in harness_errors:
        print('HARNESS-ERROR: property=%s %s' % (prop, h))
    for path, desc in violations_new:
        print('VIOLATION property=%s replay=%s' % (prop, path))
        print('  ' + desc)
    sys.stdout.flush()
    if violations_new:
        return EXIT_VIOLATION
    if harness_errors:
        return EXIT_HARNESS
    return EXIT_OK


class Budget:
    """Wall-clock budget for a batch (harness-side only; never seen by a simulated run)."""

    def __init__(self, seconds):
        self.t0 = time.monotonic()
        self.seconds = seconds

    def elapsed(self):
        return time.monotonic() - self.t0

    def left(self):
        return self.seconds - self.elapsed()

    def expired(self):
        return self.left() <= 0
