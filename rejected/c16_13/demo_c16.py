"""C16 demo: HplSpecification.sanity_check() must not change the trees it checks.

Scenario (a real bulk-construction pattern): a tool assembles a specification
through the AST API with attrs' attribute validators switched off for speed
(`attrs.validators.disabled()` / `set_disabled(True)`), switches them back on,
and then asks the library to check the result with `spec.sanity_check()`.

Exit status 0: every tree is exactly as it was before the call.
Exit status 1: the call altered trees that were obtained earlier.
"""

import sys

from attrs import validators

from hpl.ast import (
    HplFieldAccess,
    HplPattern,
    HplPredicateExpression,
    HplProperty,
    HplScope,
    HplSimpleEvent,
    HplSpecification,
    HplThisMessage,
    HplUnaryOperator,
)


def snapshot(tree):
    ids = tuple(id(obj) for obj in tree.iterate())
    return {'repr': repr(tree), 'hash': hash(tree), 'str': str(tree), 'node ids': ids}


def main() -> int:
    # --- environment: validators off while the trees are assembled ----------
    with validators.disabled():
        ok = HplFieldAccess(HplThisMessage(), 'ok')  # stored type: ITEM | ARRAY
        phi = HplUnaryOperator.negation(ok)  # not ok
        other = HplUnaryOperator.negation(phi)  # another tree sharing `phi`
        event = HplSimpleEvent.publish('a', HplPredicateExpression(phi))
        prop = HplProperty(HplScope.globally(), HplPattern.absence(event))
        spec = HplSpecification((prop,))
    # validators are on again from here on

    trees = {'spec': spec, 'phi (not ok)': phi, 'other (not not ok)': other}
    before = {name: snapshot(tree) for name, tree in trees.items()}
    with validators.disabled():  # an identical, independent construction
        twin = HplUnaryOperator.negation(HplFieldAccess(HplThisMessage(), 'ok'))
    index = {phi: 'annotation stored under phi'}
    assert phi == twin and phi in index

    # --- the call under test ---------------------------------------------------
    spec.sanity_check()

    # --- observations ----------------------------------------------------------
    problems = []
    for name, tree in trees.items():
        after = snapshot(tree)
        for key in ('repr', 'hash', 'str', 'node ids'):
            if before[name][key] != after[key]:
                problems.append(
                    f'{name}: {key} changed\n'
                    f'      before: {before[name][key]}\n'
                    f'      after:  {after[key]}'
                )
    if phi != twin:
        problems.append('phi left its equality class: it no longer equals an identical construction')
    if phi not in index:
        problems.append('phi can no longer be found in a dict it was used as a key of (hash changed)')

    if not problems:
        print('OK: HplSpecification.sanity_check() left every tree untouched')
        return 0

    print('C16 VIOLATION: HplSpecification.sanity_check() altered existing trees')
    print('input: spec = [globally: no a { (not ok) }], built through the API')
    print('environment: attrs validators disabled while building, enabled again afterwards')
    print('sequence: spec.sanity_check()')
    for problem in problems:
        print('  -', problem)
    return 1


if __name__ == '__main__':
    sys.exit(main())
