#!/usr/bin/env python
# Demo for C08 "simplify preserves meaning".
#
# A message field that holds NaN (IEEE 754: NaN is not equal to itself) is
# the standard way to say "this reading is invalid" in ROS (sensor_msgs/
# LaserScan.ranges, Imu.orientation, ...).  HPL has no isnan(), so the only
# way to write a NaN test is to compare a field with itself:
#     {range_min != range_min}      -- "the field is NaN"
#     {ranges[0] = ranges[0]}       -- "the field is not NaN"
# simplify() must not change the value of such predicates.
#
# Exit status: 0 when simplify() preserves the value for every case below,
# 1 (with a report) otherwise.

import math
import operator
import sys

from hpl.parser import condition_parser
from hpl.rewrite import simplify

NAN = float('nan')

COMPARE = {
    '=': operator.eq,
    '!=': operator.ne,
    '<': operator.lt,
    '<=': operator.le,
    '>': operator.gt,
    '>=': operator.ge,
}


def evaluate(expr, msg, aliases):
    """Tiny independent evaluator (plain Python float semantics)."""
    if expr.is_value:
        if expr.is_literal:
            return expr.value
        if expr.is_this_msg:
            return msg
        if expr.is_variable:
            return aliases[expr.name]
    if expr.is_accessor:
        if expr.is_field:
            return evaluate(expr.message, msg, aliases)[expr.field]
        return evaluate(expr.array, msg, aliases)[evaluate(expr.index, msg, aliases)]
    if expr.is_operator and expr.arity == 1:
        v = evaluate(expr.operand, msg, aliases)
        return (not v) if expr.operator.is_not else -v
    if expr.is_operator and expr.arity == 2:
        tok = expr.operator.token
        a = evaluate(expr.operand1, msg, aliases)
        b = evaluate(expr.operand2, msg, aliases)
        if tok in COMPARE:
            return COMPARE[tok](a, b)
        if tok == 'and':
            return a and b
        if tok == 'or':
            return a or b
    raise NotImplementedError(repr(expr))


def value_of(predicate, msg, aliases):
    if predicate.is_vacuous:
        return bool(predicate.is_true)
    return evaluate(predicate.condition, msg, aliases)


def show(v):
    return 'nan' if isinstance(v, float) and math.isnan(v) else repr(v)


TEXTS = [
    'range_min != range_min',
    'range_min = range_min',
    'not range_min = range_min',
    'ranges[0] = ranges[0]',
    'ranges[1] >= ranges[1]',
    'pose.x <= pose.x',
    '@scan.range_min != @scan.range_min',
    'range_min < range_min',
]

# the values every small test grid uses, and the one that matters here
VALUES = [-2, -1, -0.5, 0, 0.5, 1, 2, 3, NAN]


def main() -> int:
    parser = condition_parser()
    failures = 0
    for text in TEXTS:
        original = parser.parse(text)
        simplified = simplify(original)
        for v in VALUES:
            msg = {'range_min': v, 'ranges': [v, v], 'pose': {'x': v}}
            aliases = {'scan': msg}
            expected = value_of(original, msg, aliases)
            actual = value_of(simplified, msg, aliases)
            if expected != actual:
                failures += 1
                print('C08 VIOLATED: simplify changed the value of a predicate')
                print(f'  input predicate : {{{text}}}')
                print(f'  simplify() gave : {simplified!r}')
                print(f'  environment     : every numeric field = {show(v)}'
                      f' (msg={ {k: msg[k] for k in ("range_min", "ranges", "pose")} })')
                print(f'  original value  : {expected}')
                print(f'  simplified value: {actual}')
    if failures:
        print(f'{failures} violation(s)')
        return 1
    print(f'ok: {len(TEXTS)} predicates x {len(VALUES)} values, simplify preserved every value')
    return 0


if __name__ == '__main__':
    sys.exit(main())
