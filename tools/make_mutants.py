#!/venv/bin/python
"""Regenerate /verif/mutants/*.patch from (file, old, new) triples against /repo's working tree.

Each mutant is a small change to git-afsantos/hpl-specs used by `check.py selftest mutants` to show
that the checks are sensitive (breaking mutants must be reported) and specific (benign ones must
stay silent). Patches are applied to a scratch copy of /repo/src, never to /repo.
"""
import difflib
import json
import os
import sys

REPO = '/repo'
OUT = os.path.join(os.path.dirname(os.path.dirname(os.path.abspath(__file__))), 'mutants')

M = []


def mut(name, prop, kind, why, edits):
    M.append((name, prop, kind, why, edits))


P = 'src/hpl/parser.py'
R = 'src/hpl/rewrite.py'
X = 'src/hpl/ast/expressions.py'
B = 'src/hpl/ast/base.py'
C = 'src/hpl/cli.py'

# ---------------------------------------------------------------- C07
mut('c07_pending_metadata_leaks_after_failed_parse', 'C07', 'breaking',
    'the transformer keeps metadata items on self and only clears them when a property is completed: after a parse that failed between the two callbacks the next property inherits them',
    [(P, """        metadata: Dict[str, Any] = {}
        pid = None
        dup = None
        for key, value in children:""", """        metadata: Dict[str, Any] = {}
        pid = None
        dup = None
        children = list(getattr(self, '_pending', None) or ()) + list(children)
        self._pending = children
        for key, value in children:"""),
     (P, """        hpl_property = HplProperty(scope, pattern)
        hpl_property.metadata.update(metadata)""", """        hpl_property = HplProperty(scope, pattern)
        self._pending = None
        hpl_property.metadata.update(metadata)""")])
mut('c07_unexpected_characters_leak', 'C07', 'breaking',
    'HplParser.parse no longer translates lexer errors: a raw lark exception escapes',
    [(P, "        except (UnexpectedToken, UnexpectedCharacters, SyntaxError) as e:", "        except (UnexpectedToken, SyntaxError) as e:")])
mut('c07_assert_in_range_callback', 'C07', 'breaking',
    'a new assertion in a callback, reachable only by ranges exclusive at both ends',
    [(P, "        exc_max = rr.endswith('!')\n", "        exc_max = rr.endswith('!')\n        assert not (exc_min and exc_max)\n")])
mut('c07_parse_counter_changes_results', 'C07', 'breaking',
    'a parser object counts its calls on the shared transformer and from the 4th property on attaches the count as metadata: results depend on the past',
    [(P, """        hpl_property = HplProperty(scope, pattern)
        hpl_property.metadata.update(metadata)""", """        hpl_property = HplProperty(scope, pattern)
        self._n = getattr(self, '_n', 0) + 1
        if self._n > 3:
            metadata = dict(metadata, seq=self._n)
        hpl_property.metadata.update(metadata)""")])
# ---------------------------------------------------------------- C08
mut('c08_add_zero_returns_zero', 'C08', 'breaking', 'x + 0 is rewritten to 0 (the multiplication rule applied to addition)',
    [(R, """    if isinstance(b, HplLiteral):
        if b.value == 0:
            return a
        if isinstance(a, HplLiteral):
            return b if a.value == 0 else HplLiteral.number(a.value + b.value)""", """    if isinstance(b, HplLiteral):
        if b.value == 0:
            return b
        if isinstance(a, HplLiteral):
            return b if a.value == 0 else HplLiteral.number(a.value + b.value)""")])
mut('c08_lte_inverse_is_gt', 'C08', 'breaking', 'the inverse of <= is mapped to > instead of >= (only visible when operands are flipped)',
    [(R, "    BuiltinBinaryOperator.LTE.value: BuiltinBinaryOperator.GTE.value,", "    BuiltinBinaryOperator.LTE.value: BuiltinBinaryOperator.GT.value,")])
mut('c08_negated_conjunct_dropped_if_last', 'C08', 'breaking',
    'when duplicate conjuncts are removed, a negated conjunct is dropped if the set iteration happens to yield it last: only some iteration orders show it',
    [(R, """        psi = And(conjuncts[0], conjuncts[1])
        for i in range(2, len(conjuncts)):
            psi = And(conjuncts[i], psi)
        return psi""", """        psi = And(conjuncts[0], conjuncts[1])
        for i in range(2, len(conjuncts)):
            if i == len(conjuncts) - 1 and is_not(conjuncts[i]):
                break
            psi = And(conjuncts[i], psi)
        return psi""")])
mut('c08_division_by_self_ignores_sign', 'C08', 'breaking', 'x / -x is rewritten to 1 instead of -1',
    [(R, """    if _obvious_negatives(a, b):
        return HplLiteral.number(-1)
    return expr


@typechecked
def _simplify_exponentiation""", """    if _obvious_negatives(a, b):
        return HplLiteral.number(1)
    return expr


@typechecked
def _simplify_exponentiation""")])
mut('c08_vacuous_falsity_not_recognised', 'C08', 'breaking', 'a predicate whose condition simplifies to False comes back as a general predicate',
    [(R, """        if is_false(expr):
            return HplContradiction()
        return HplPredicateExpression(expr)""", """        return HplPredicateExpression(expr)""")])
# ---------------------------------------------------------------- C12
mut('c12_existence_split', 'C12', 'breaking', 'canonical_form also distributes `some` over alternatives',
    [(R, "        patterns = [property.pattern]  # no splits", "        patterns = [property.pattern.but(behaviour=event) for event in property.pattern.behaviour.simple_events()]")])
mut('c12_copies_lose_time_bound', 'C12', 'breaking', 'safety copies lose their time bound',
    [(R, "    patterns = [pattern.but(behaviour=event) for event in pattern.behaviour.simple_events()]", "    patterns = [pattern.but(behaviour=event, max_time=float('inf')) for event in pattern.behaviour.simple_events()]")])
mut('c12_response_splits_behaviour', 'C12', 'breaking', 'response patterns are split on the behaviour instead of the trigger',
    [(R, "        patterns = [property.pattern.but(trigger=event) for event in trigger.simple_events()]", "        patterns = [property.pattern.but(behaviour=event) for event in property.pattern.behaviour.simple_events()]")])
mut('c12_third_alternative_lost', 'C12', 'breaking', 'only the first two alternatives of a split behaviour are kept',
    [(R, "    patterns = [pattern.but(behaviour=event) for event in pattern.behaviour.simple_events()]", "    patterns = [pattern.but(behaviour=event) for event in list(pattern.behaviour.simple_events())[:2]]")])
# ---------------------------------------------------------------- C16
mut('c16_cast_narrows_in_place', 'C16', 'breaking', 'HplExpression.cast narrows the receiver instead of copying',
    [(X, "            return self if r == self.data_type else self.but(data_type=r)", "            object.__setattr__(self, 'data_type', r)\n            return self")])
mut('c16_but_shares_metadata', 'C16', 'breaking', 'but() hands the receiver\'s metadata dict to the copy',
    [(B, "        new.metadata.update(metadata)\n", "        new.metadata.update(metadata)\n        object.__setattr__(new, 'metadata', self.metadata)\n")])
mut('c16_but_equal_values_return_self', 'C16', 'breaking', 'but() returns the receiver for equal (not identical) values... and so ignores a replaced child object',
    [(B, "                if getattr(self, key) is not value:", "                if getattr(self, key) != value:")])
mut('c16_canonical_form_tags_input', 'C16', 'breaking', 'canonical_form records something in the metadata of the property it was given',
    [(R, "    scopes = _canonical_form_scopes(property.scope)\n    pattern = property.pattern\n", "    scopes = _canonical_form_scopes(property.scope)\n    property.metadata['canonical'] = False\n    pattern = property.pattern\n")])
mut('c16_schema_check_narrows', 'C16', 'breaking', 'checking references against a schema stores the schema type in the tree',
    [(X, "            t = expr._get_next_token(t)\n            self._type_check(expr, t.type)\n", "            t = expr._get_next_token(t)\n            self._type_check(expr, t.type)\n            object.__setattr__(expr, 'data_type', expr.data_type.cast(t.type))\n")])
# ---------------------------------------------------------------- C19
mut('c19_serializer_misses_nan', 'C19', 'breaking', 'the serializer nulls infinities only',
    [(C, "    if isinstance(value, float) and (isinf(value) or isnan(value)):", "    if isinstance(value, float) and isinf(value):")])
mut('c19_generic_handler_returns_zero', 'C19', 'breaking', 'the generic exception handler reports success',
    [(C, "        print(err)\n        print_exc()\n        return 1", "        print(err)\n        print_exc()\n        return 0")])
mut('c19_write_errors_swallowed', 'C19', 'breaking', 'a failing write of the document is ignored: exit status 0 with partial output (needs a stream fault to show)',
    [(C, "            print(output)\n", "            try:\n                print(output)\n            except OSError:\n                pass\n")])
mut('c19_read_ignores_bad_bytes', 'C19', 'breaking', 'the file is read with errors="ignore": undecodable files are accepted',
    [(C, "            text: str = path.read_text(encoding='utf-8')", "            text: str = path.read_text(encoding='utf-8', errors='ignore')")])
mut('c19_json_before_success', 'C19', 'breaking', 'with -o json a placeholder document is printed on the syntax-error path',
    [(C, "        print('Syntax error:', file=sys.stderr)\n", "        print('Syntax error:', file=sys.stderr)\n        if args.get('output') == FORMAT_JSON:\n            print('{}')\n")])
# ---------------------------------------------------------------- benign
mut('benign_sorted_conjuncts', 'C08', 'benign', 'unique conjuncts/disjuncts are emitted in sorted order',
    [(R, "        conjuncts = list(unique)\n", "        conjuncts = sorted(unique, key=str)\n"), (R, "        disjuncts = list(unique)\n", "        disjuncts = sorted(unique, key=str)\n")])
mut('benign_compact_json', 'C19', 'benign', 'JSON is printed without indentation and with sorted keys',
    [(C, "            output: str = json.dumps(data, indent=2)", "            output: str = json.dumps(data, sort_keys=True, separators=(',', ':'))")])
mut('benign_reworded_errors', 'C07', 'benign', 'error messages reworded',
    [('src/hpl/errors.py', "        return cls(f\"reference to undefined event '{name}' in «{obj}»\")", "        return cls(f\"unknown event alias '{name}' referenced by «{obj}»\")"),
     (X, "    raise ValueError(f'{fun!r} is not a valid function')", "    raise ValueError(f'unknown function: {fun!r}')")])
mut('benign_cli_uses_open', 'C19', 'benign', 'the CLI reads the file with open() instead of Path.read_text',
    [(C, "            text: str = path.read_text(encoding='utf-8')", "            with open(path, 'r', encoding='utf-8') as fp:\n                text: str = fp.read()")])
mut('benign_parse_refactored', 'C07', 'benign', 'HplParser.parse catches the common base class of lark input errors',
    [(P, "        except (UnexpectedToken, UnexpectedCharacters, SyntaxError) as e:", "        except (UnexpectedInput, SyntaxError) as e:"),
     (P, "from lark.exceptions import UnexpectedCharacters, UnexpectedToken", "from lark.exceptions import UnexpectedCharacters, UnexpectedInput, UnexpectedToken")])
mut('benign_but_without_evolve', 'C16', 'benign', 'but() builds the copy by calling the class instead of attrs.evolve',
    [(B, "        new = evolve(self, **kwargs)\n", "        from attrs import fields as _fields\n        init = {a.name: getattr(self, a.name) for a in _fields(type(self)) if a.init}\n        init.update(kwargs)\n        new = type(self)(**init)\n")])
mut('benign_canonical_form_list_copy', 'C12', 'benign', 'canonical_form materialises the alternatives in a list first',
    [(R, "    patterns = [pattern.but(behaviour=event) for event in pattern.behaviour.simple_events()]", "    alternatives = list(pattern.behaviour.simple_events())\n    patterns = [pattern.but(behaviour=event) for event in alternatives]")])


def main():
    os.makedirs(OUT, exist_ok=True)
    index = []
    for name, prop, kind, why, edits in M:
        by_file = {}
        for f, old, new in edits:
            by_file.setdefault(f, []).append((old, new))
        chunks = []
        for f, pairs in by_file.items():
            src = open(os.path.join(REPO, f)).read()
            dst = src
            for old, new in pairs:
                if dst.count(old) != 1:
                    print('mutant %s: pattern occurs %d times in %s' % (name, dst.count(old), f))
                    sys.exit(1)
                dst = dst.replace(old, new)
            diff = difflib.unified_diff(src.splitlines(True), dst.splitlines(True), 'a/' + f, 'b/' + f)
            chunks.append(''.join(diff))
        with open(os.path.join(OUT, name + '.patch'), 'w') as fp:
            fp.write(''.join(chunks))
        index.append({'name': name, 'property': prop, 'kind': kind, 'why': why})
    with open(os.path.join(OUT, 'index.json'), 'w') as fp:
        json.dump(index, fp, indent=1)
    print('wrote %d mutants' % len(index))


if __name__ == '__main__':
    main()
