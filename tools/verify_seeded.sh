#!/bin/bash
# usage: verify_seeded.sh <name e.g. c19_2> <PROP e.g. C19> <agent worktree>
# 1. confirms in a FRESH scratch worktree: demo passes without the change, fails with it, 49 tests pass with it
# 2. copies patch + demo into /verif/seeded/<name>/
# 3. applies the patch to /repo, runs the property's quick check, undoes it straight afterwards
set -u
name=$1; prop=$2; src=$3
lp=${name%%_*}
wt=/tmp/vf_$name
git -C /repo worktree add --detach $wt HEAD -q || exit 2
cp $src/demo_$lp.py $wt/; sed -i "s#$src#$wt#g" $wt/demo_$lp.py
( cd $wt && PYTHONPATH=$wt/src timeout 600 /venv/bin/python demo_$lp.py > /tmp/vf_${name}_without.log 2>&1; echo "demo WITHOUT change: exit $?" )
( cd $wt && git apply $src/patch.diff && PYTHONPATH=$wt/src timeout 600 /venv/bin/python demo_$lp.py > /tmp/vf_${name}_with.log 2>&1; echo "demo WITH change: exit $?" )
( cd $wt && rm -rf .hypothesis && PYTHONPATH=$wt/src timeout 900 /venv/bin/python -m pytest -q -p no:cacheprovider tests 2>&1 | tail -1 )
git -C /repo worktree remove --force $wt
mkdir -p /verif/seeded/$name
cp $src/patch.diff /verif/seeded/$name/patch.diff; cp $src/demo_$lp.py /verif/seeded/$name/
git -C /repo apply /verif/seeded/$name/patch.diff || exit 2
HPLSIM_EVIDENCE_DIR=/tmp/ev_seeded HPLSIM_REPLAY_DIR=/tmp/rp_seeded timeout 1200 /venv/bin/python /verif/check.py $prop --tier quick > /tmp/seeded_$name.log 2>&1
echo "$prop quick check against $name: exit $?"
git -C /repo checkout -- .
git -C /repo status --short | head -3
grep -A1 "^VIOLATION\|^C[0-9]*:" /tmp/seeded_$name.log | cut -c1-300 | head -6
