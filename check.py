#!/venv/bin/python
"""Single entry point: check.py <C07|C08|C12|C16|C19|selftest> [--tier quick|thorough] [--replay FILE]

exit 0: the property held on everything explored (KNOWN-FINDING lines possible)
exit 1: VIOLATION property=<id> replay=<path>
exit 2: harness error (never reported as a pass)
"""

import os
import sys

HERE = os.path.dirname(os.path.abspath(__file__))
sys.path.insert(0, HERE)

from hplsim import core  # noqa: E402


def main():
    if len(sys.argv) < 2:
        print(__doc__)
        return 2
    which = sys.argv[1]
    hashseed = None
    if '--replay' in sys.argv:
        # a replay file pins the hash seed it was recorded under
        try:
            path = sys.argv[sys.argv.index('--replay') + 1]
            doc = core.load_replay(path)
            hs = doc.get('pythonhashseed')
            if hs is not None:
                hashseed = str(hs)
            # ... and the interpreter configuration (python -O or not)
            if doc.get('python_optimize'):
                os.environ['HPLSIM_PYOPT'] = '1'
            else:
                os.environ.pop('HPLSIM_PYOPT', None)
        except Exception:
            pass
    core.bootstrap(hashseed)
    mods = {'C07': 'c07', 'C08': 'c08', 'C12': 'c12', 'C16': 'c16', 'C19': 'c19', 'selftest': 'selftest'}
    if which not in mods:
        print('unknown check %r' % which)
        return 2
    mod = __import__('hplsim.' + mods[which], fromlist=['main'])
    try:
        return mod.main(sys.argv[2:])
    except core.HarnessError as e:
        print('HARNESS-ERROR: property=%s %s' % (which, str(e)[-2000:]))
        return core.EXIT_HARNESS


if __name__ == '__main__':
    sys.exit(main())
